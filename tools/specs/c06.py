"""C06: `lentil.field._merge_slices` — the per-field slice of the general (non-origin) branch.

The loop body `frmin, ... = field.extent; row = slice(frmin-rmin, frmax-rmin+1); col = slice(fcmin-cmin, fcmax-cmin+1)` is
translated as a function of the bounding box (`rmin, rmax, cmin, cmax = boundary(fields)`) and one field extent. `Lentil.mergeL` (Model/Field.lean) addresses its members through this generated definition (`Gen.mergeSlice`), so a change of
`_merge_slices` flows into `merge_emb`; `Props/C06.merge_slices_spec` states its closed form and that it is in range."""
import ast, re
from py2lean import V, S, Refuse

def _merge_slices_step(tr, stmts):
    ifs = [s for s in stmts if isinstance(s, ast.If)]
    if len(ifs) != 1: raise Refuse('_merge_slices: branch not found')
    if ast.unparse(ifs[0].test) != 'rmin == 0 and rmax == 0 and (cmin == 0) and (cmax == 0)': raise Refuse('_merge_slices: origin test changed')
    if ast.unparse(ifs[0].body).strip() != 'out = [Ellipsis for field in fields]': raise Refuse('_merge_slices: origin branch changed')
    loops = [s for s in ifs[0].orelse if isinstance(s, ast.For)]
    if len(loops) != 1 or len(ifs[0].orelse) != 1 or ast.unparse(loops[0].target) != 'field' or ast.unparse(loops[0].iter) != 'fields':
        raise Refuse('_merge_slices: loop not found')
    body = list(loops[0].body)
    if ast.unparse(body[-1]).strip() != 'out.append((row, col))': raise Refuse('_merge_slices: append changed')
    return body[:-1], lambda env: V([env['row'], env['col']])

class _Subst(ast.NodeTransformer):
    """replace sub-expressions (matched by their unparsed text) by fresh integer parameter names / comparisons"""
    def __init__(self, table): self.table = table; self.hits = set()
    def visit(self, node):
        if isinstance(node, ast.expr):
            t = ast.unparse(node)
            if t in self.table:
                self.hits.add(t)
                return ast.parse(self.table[t], mode='eval').body
        return super().visit(node)

def _test(pick, table=None, what=''):
    """block hook: translate the TEST expression of the `if` statement chosen by `pick(stmts)`; `table` maps opaque
    sub-expressions (e.g. `len(fields)`) to integer parameters, every entry must occur"""
    def hook(tr, stmts):
        node = pick(stmts)
        if not isinstance(node, ast.If): raise Refuse(f'{what}: if-statement not found')
        test = node.test
        if table:
            sub = _Subst(table); test = ast.fix_missing_locations(sub.visit(ast.parse(ast.unparse(test), mode='eval').body))
            if sub.hits != set(table): raise Refuse(f'{what}: test changed: {ast.unparse(node.test)[:80]}')
        return [], lambda env: tr.expr(test, env)
    return hook

def _first_if(stmts):
    ifs = [s for s in stmts if isinstance(s, ast.If)]
    return ifs[0] if ifs else None

def _overlap_many(stmts):
    """overlap(): else-branch `fields = _reduce(fields); if len(fields) > 1: return False else: return True`"""
    top = _first_if(stmts)
    if top is None or len(top.orelse) != 2 or ast.unparse(top.orelse[0]).strip() != 'fields = _reduce(fields)': raise Refuse('overlap: many-branch changed')
    node = top.orelse[1]
    if not (isinstance(node, ast.If) and ast.unparse(node.body).strip() == 'return False' and ast.unparse(node.orelse).strip() == 'return True'):
        raise Refuse('overlap: many-branch returns changed')
    return node

def _overlap_pair(stmts):
    top = _first_if(stmts)
    if top is None or ast.unparse(top.body).strip() != 'return lentil.extent.intersect(fields[0].extent, fields[1].extent)':
        raise Refuse('overlap: pair branch changed')
    return top

def _reduce_merges(stmts):
    """reduce(): `for f in fields: if len(f['field']) > 1: out.append(_merge(f['field'])) else: out.append(f['field'][0])`"""
    loops = [s for s in stmts if isinstance(s, ast.For)]
    if len(loops) != 1 or ast.unparse(loops[0].target) != 'f' or ast.unparse(loops[0].iter) != 'fields' or len(loops[0].body) != 1:
        raise Refuse('reduce: loop changed')
    node = loops[0].body[0]
    if not (isinstance(node, ast.If) and ast.unparse(node.body).strip() == "out.append(_merge(f['field']))"
            and ast.unparse(node.orelse).strip() == "out.append(f['field'][0])"):
        raise Refuse('reduce: branches changed')
    return node

def _merge_refuse(stmts):
    top = _first_if(stmts)
    if top is None or not isinstance(top.body[0], ast.Raise) or top.orelse: raise Refuse('merge: refusal changed')
    rest = [s for s in stmts if not isinstance(s, (ast.If, ast.Expr))]
    if len(rest) != 1 or ast.unparse(rest[0]).strip() != 'return _merge((a, b))': raise Refuse('merge: accepted branch changed')
    return top

def _disjoint_step(tr, stmts):
    """structural recogniser for `_disjoint` (loop form): `merged = True; while merged: merged = False; for m, n in
    combinations(range(len(fields)), 2): if <extents intersect>: <merge step>; merged = True; break` and `return fields`, i.e. scan
    the pairs in `combinations` order, merge the FIRST intersecting pair, rescan the shortened list from the start, stop when a
    full scan finds nothing — the iteration the model's fuel recursion `Lentil.disjoint` performs (`disjoint_succ_some`: one step;
    `reduce_terminates`: at most len(fields) steps; `reduce_fixed_point_iff`: the exit condition). The merge step is
    `fields[a]['field'].extend(fields[b]['field']); fields[r]['extent'] = boundary(fields[r]['field']); fields.pop(p)`;
    emits (a, b, r, p) with 0 for m, 1 for n."""
    import re
    body = [s for s in stmts if not (isinstance(s, ast.Expr) and isinstance(getattr(s, 'value', None), ast.Constant))]
    if len(body) != 3: raise Refuse('_disjoint: expected `merged = True`, a while loop and `return fields`')
    init, loop, ret = body
    if not (isinstance(init, ast.Assign) and ast.unparse(init) == 'merged = True'): raise Refuse('_disjoint: loop flag initialisation changed')
    if not (isinstance(ret, ast.Return) and ast.unparse(ret) == 'return fields'): raise Refuse('_disjoint: does not return fields')
    if not (isinstance(loop, ast.While) and ast.unparse(loop.test) == 'merged' and not loop.orelse and len(loop.body) == 2
            and ast.unparse(loop.body[0]) == 'merged = False' and isinstance(loop.body[1], ast.For)):
        raise Refuse('_disjoint: `while merged: merged = False; for …` not found')
    lp = loop.body[1]
    if ast.unparse(lp.target) != '(m, n)' or ast.unparse(lp.iter) != 'combinations(range(len(fields)), 2)' or len(lp.body) != 1 or lp.orelse:
        raise Refuse('_disjoint: pair scan changed')
    node = lp.body[0]
    if not isinstance(node, ast.If) or node.orelse or ast.unparse(node.test) != "lentil.extent.intersect(fields[m]['extent'], fields[n]['extent'])":
        raise Refuse('_disjoint: pair test changed')
    step = [ast.unparse(x).strip() for x in node.body]
    idx = {'m': 0, 'n': 1}
    pats = [r"fields\[(m|n)\]\['field'\]\.extend\(fields\[(m|n)\]\['field'\]\)", r"fields\[(m|n)\]\['extent'\] = boundary\(fields\[(m|n)\]\['field'\]\)",
            r"fields\.pop\((m|n)\)", r"merged = True", r"break"]
    if len(step) != 5: raise Refuse('_disjoint: merge step has %d statements' % len(step))
    ms = [re.fullmatch(pt, b) for pt, b in zip(pats, step)]
    if not all(ms): raise Refuse('_disjoint: merge step changed: ' + '; '.join(step)[:120])
    keep, src = ms[0].group(1), ms[0].group(2)
    if ms[1].group(1) != ms[1].group(2): raise Refuse('_disjoint: extent recomputed from another group')
    vals = [idx[keep], idx[src], idx[ms[1].group(1)], idx[ms[2].group(1)]]
    return [], lambda env: V([S(f'({v} : Int)', const=v) for v in vals])

_SZ = ('attr', {'size': 'int'})
_OFF = ('attr', {'offset': 'pairk'})     # the offsets with their container type: `==` would compare that too
FIELDMERGE = {
    '_merge_slices#step': {'py_name': '_merge_slices', 'lean_name': 'mergeSlice',
                           'params': [('rmin', 'int'), ('rmax', 'int'), ('cmin', 'int'), ('cmax', 'int'),
                                      ('field', ('attr', {'extent': 'ext'}))],
                           'block': _merge_slices_step},
}


# ------------------------------------------------------------------------------------------------ insert: the accumulation
def _acc_expr(e):
    """the right-hand side of `out[out_slice] += …` as a term over {data, weight, *, |·|²}: `field.data[field_slice]` is the
    data, `np.abs(X**2)` / `np.abs(X)**2` / `abs(X)**2` all mean |X|² (equal for complex numbers), a bare `np.abs(X)` or
    anything else is refused"""
    t = ast.unparse(e)
    if t == 'field.data[field_slice]': return '.data'
    if t == 'weight': return '.weight'
    if isinstance(e, ast.BinOp) and isinstance(e.op, ast.Mult): return f'(.mul {_acc_expr(e.left)} {_acc_expr(e.right)})'
    def is_abs(c): return isinstance(c, ast.Call) and ast.unparse(c.func) in ('np.abs', 'abs', 'np.absolute') and len(c.args) == 1 and not c.keywords
    def is_sq(b): return isinstance(b, ast.BinOp) and isinstance(b.op, ast.Pow) and isinstance(b.right, ast.Constant) and b.right.value == 2
    if is_abs(e) and is_sq(e.args[0]): return f'(.nsq {_acc_expr(e.args[0].left)})'
    if is_sq(e) and is_abs(e.left): return f'(.nsq {_acc_expr(e.left.args[0])})'
    raise Refuse(f'insert: accumulated expression not understood: {t[:80]}')

def generate_accum(repo):
    """Gen/FieldAccum.lean: the two accumulation statements at the end of `lentil.field.insert`
    (`if intensity: out[out_slice] += … else: out[out_slice] += …`) as terms the model evaluates (`Lentil.insertTerm`)"""
    import os
    mod = ast.parse(open(os.path.join(repo, 'lentil/field.py')).read())
    fn = [n for n in mod.body if isinstance(n, ast.FunctionDef) and n.name == 'insert']
    if not fn: raise Refuse('field.py: insert not found')
    body = [s for s in fn[0].body if not (isinstance(s, ast.Expr) and isinstance(s.value, ast.Constant))]
    if len(body) < 3 or not isinstance(body[-1], ast.Return) or ast.unparse(body[-1].value) != 'out': raise Refuse('insert: does not end in `return out`')
    br = body[-2]
    if not (isinstance(br, ast.If) and ast.unparse(br.test) == 'intensity' and len(br.body) == 1 and len(br.orelse) == 1):
        raise Refuse('insert: final `if intensity:` with one statement per branch not found')
    terms, inplace = [], []
    for st in (br.body[0], br.orelse[0]):
        if isinstance(st, ast.AugAssign) and isinstance(st.op, ast.Add): inplace.append(True)
        elif isinstance(st, ast.Assign) and len(st.targets) == 1: inplace.append(False)
        else: raise Refuse('insert: accumulation statement is neither `+=` nor `=`: ' + ast.unparse(st)[:80])
        tgt = st.target if isinstance(st, ast.AugAssign) else st.targets[0]
        if ast.unparse(tgt) != 'out[out_slice]': raise Refuse('insert: accumulation target changed: ' + ast.unparse(tgt)[:60])
        terms.append(_acc_expr(st.value))
    b = lambda x: 'true' if x else 'false'
    text = f"""/-- terms of the accumulation statements of `lentil.field.insert` -/
inductive AccExpr where
  | data | weight
  | mul (a b : AccExpr)
  | nsq (a : AccExpr)
deriving Repr, DecidableEq

/-- translated from `field.py:insert`: `if intensity: out[out_slice] += <this>` -/
def insertAccumIntensity : AccExpr := {terms[0]}
/-- translated from `field.py:insert`: `else: out[out_slice] += <this>` -/
def insertAccumField : AccExpr := {terms[1]}
/-- both statements accumulate in place (`+=`) rather than overwrite (`=`): (intensity branch, field branch) -/
def insertAccumInPlace : Bool × Bool := ({b(inplace[0])}, {b(inplace[1])})
"""
    return text, ['insert: accumulation statements of both branches']


# ------------------------------------------------------------------------------------------------ _mul_broadcast
def _mul_broadcast_block(tr, stmts):
    """`lentil.field._mul_broadcast` as index/branch logic. The two array parameters `a_data`, `b_data` enter through what the
    function reads of them — `.shape` (pair) and `.size` (int) — and `X_data = np.broadcast_to(X_data, Y_data.shape)` is read as
    `X_shape = Y_shape; X_size = Y_size; X_bc = 1` (the broadcast array has the target's shape and element count; the flag
    records that its samples are now copies of the single sample). Every other use of the arrays is refused. Emits
    (a_bc, a_shape, a_offset, b_bc, b_shape, b_offset) for the final `return a_data, a_offset, b_data, b_offset`."""
    body = [s for s in stmts if not (isinstance(s, ast.Expr) and isinstance(getattr(s, 'value', None), ast.Constant))]
    if not body or ast.dump(body[-1]) != ast.dump(ast.parse('return a_data, a_offset, b_data, b_offset').body[0]):
        raise Refuse('_mul_broadcast: final return changed')
    arrs = {'a_data': 'a', 'b_data': 'b'}
    class Rw(ast.NodeTransformer):
        def visit_Attribute(self, node):
            if isinstance(node.value, ast.Name) and node.value.id in arrs and node.attr in ('shape', 'size'):
                return ast.Name(id=f'{arrs[node.value.id]}_{node.attr}', ctx=ast.Load())
            return self.generic_visit(node)
    def rw_stmts(sts):
        out = []
        for st in sts:
            if isinstance(st, ast.Assign) and len(st.targets) == 1 and isinstance(st.targets[0], ast.Name) and st.targets[0].id in arrs:
                x = st.targets[0].id
                m = re.fullmatch(r'np\.broadcast_to\((a_data|b_data), (a_data|b_data)\.shape\)', ast.unparse(st.value))
                if not m or m.group(1) != x or m.group(2) == x: raise Refuse('_mul_broadcast: array assignment not understood: ' + ast.unparse(st)[:80])
                p, q = arrs[x], arrs[m.group(2)]
                out += ast.parse(f'{p}_shape = {q}_shape\n{p}_size = {q}_size\n{p}_bc = 1').body
            elif isinstance(st, ast.If):
                out.append(ast.If(test=Rw().visit(st.test), body=rw_stmts(st.body), orelse=rw_stmts(st.orelse)))
            elif isinstance(st, (ast.Return, ast.Raise)):
                raise Refuse('_mul_broadcast: early exit')
            else:
                out.append(Rw().visit(st))
        return out
    import copy
    new = ast.parse('a_bc = 0\nb_bc = 0').body + rw_stmts(copy.deepcopy(body[:-1]))
    for st in new:
        ast.fix_missing_locations(st)
        for n in ast.walk(st):
            if isinstance(n, ast.Name) and n.id in arrs: raise Refuse('_mul_broadcast: array used other than through .shape/.size/broadcast_to')
    return new, lambda env: V([env['a_bc'], env['a_shape'], env['a_offset'], env['b_bc'], env['b_shape'], env['b_offset']])

def _mul_broadcast_block_z(tr, stmts):
    """the same with shapes that may be `()`: a shape enters as the triple (ndim, d0, d1) with `()` encoded as (0, 1, 1) and a 2-D
    shape as (2, d0, d1) — two shapes are equal as Python tuples iff their triples are — through the attribute `shape` of the
    parameters A / B (kind ('vec', 3))"""
    new, final = _mul_broadcast_block(tr, stmts)
    return ast.parse('a_shape = A.shape\nb_shape = B.shape').body + new, final

_SHP3 = ('attr', {'shape': ('vec', 3)})
FIELDBROADCAST = {
    '_mul_broadcast': {'lean_name': 'mulBroadcast', 'block': _mul_broadcast_block,
                       'params': [('a_shape', 'pair'), ('a_size', 'int'), ('a_offset', 'pair'),
                                  ('b_shape', 'pair'), ('b_size', 'int'), ('b_offset', 'pair')]},
    '_mul_broadcast#nd': {'py_name': '_mul_broadcast', 'lean_name': 'mulBroadcastZ', 'block': _mul_broadcast_block_z,
                          'params': [('A', _SHP3), ('a_size', 'int'), ('a_offset', 'pair'),
                                     ('B', _SHP3), ('b_size', 'int'), ('b_offset', 'pair')]},
}

# ------------------------------------------------------------------------------------------------ Field._mul_array
def _extent_rets(repo):
    """return shapes of the extent.py functions (translated for their shapes only; the generated text calls Gen/Extent.lean)"""
    import os, gen_specs
    from py2lean import FnTranslator
    mod = ast.parse(open(os.path.join(repo, 'lentil/extent.py')).read())
    fns = {n.name: n for n in ast.walk(mod) if isinstance(n, ast.FunctionDef)}
    rets = {}
    for name, sig in gen_specs.EXTENT.items():
        if name not in fns: raise Refuse(f'extent.py: {name} not found')
        _, _, rets[name] = FnTranslator(None, fns[name], sig, gen_specs.EXTENT, rets).translate()
    return rets

def _mul_array_block(tr, stmts):
    """`Field._mul_array` after its `_mul_broadcast` call (checked textually, argument order included): the two
    `array_extent` calls, the `intersect` test, `intersection_slices` and `intersection_shift`, as a function of the shapes and
    offsets `_mul_broadcast` returned; `data = self_data[self_slice] * other_data[other_slice]` (array work, hand model
    `Fld.mulArr`) and the empty result `data = []; offset = None` are checked textually. Emits
    `some (self_slice, other_slice, offset)` / `none`."""
    body = [s for s in stmts if not (isinstance(s, ast.Expr) and isinstance(getattr(s, 'value', None), ast.Constant))]
    if len(body) != 5: raise Refuse('_mul_array: expected 5 statements')
    same = lambda st, txt: ast.dump(st) == ast.dump(ast.parse(txt).body[0])
    if not same(body[0], 'self_data, self_offset, other_data, other_offset = _mul_broadcast(self.data, self.offset, other.data, other.offset)'):
        raise Refuse('_mul_array: _mul_broadcast call changed: ' + ast.unparse(body[0])[:100])
    if not same(body[4], 'return data, offset'): raise Refuse('_mul_array: return changed')
    node = body[3]
    if not isinstance(node, ast.If) or len(node.body) != 3 or [ast.unparse(x) for x in node.orelse] != ['data = []', 'offset = None']:
        raise Refuse('_mul_array: branches changed')
    if ast.unparse(node.body[1]) != 'data = self_data[self_slice] * other_data[other_slice]': raise Refuse('_mul_array: product statement changed')
    some = ast.parse('return (self_slice, other_slice, offset)').body[0]
    none = ast.parse('return ()').body[0]
    new_if = ast.fix_missing_locations(ast.If(test=node.test, body=[node.body[0], node.body[2], some], orelse=[none]))
    return [body[1], body[2], new_if], None

_SHP = ('attr', {'shape': 'pair'})
FIELDMULARRAY = {
    '_mul_array': {'lean_name': 'mulArrayIdx', 'block': _mul_array_block,
                   'params': [('self_data', _SHP), ('self_offset', 'pair'), ('other_data', _SHP), ('other_offset', 'pair')]},
}

def _generate_with_extent(SIGS, note):
    """generator for functions of field.py that call lentil.extent.*: the generated text calls the definitions of Gen/Extent.lean
    (their signatures / return shapes are recomputed from extent.py by the same translator)"""
    def gen(repo):
        import os, gen_specs
        from py2lean import FnTranslator
        mod = ast.parse(open(os.path.join(repo, 'lentil/field.py')).read())
        fns = {}
        for n in ast.walk(mod):
            if isinstance(n, ast.FunctionDef):
                if n.name in fns: raise Refuse(f'field.py: two functions named {n.name}')
                fns[n.name] = n
        shp = fns.get('shape')
        if shp is None or [ast.unparse(x) for x in shp.body if not (isinstance(x, ast.Expr) and isinstance(x.value, ast.Constant))] != ['return self.data.shape'] \
                or [ast.unparse(d) for d in shp.decorator_list] != ['property']:
            raise Refuse('field.py: the property Field.shape is not `return self.data.shape`')
        rets = _extent_rets(repo)
        all_sigs = dict(gen_specs.EXTENT); all_sigs.update(SIGS)
        out = []
        for name, sig in SIGS.items():
            py = sig.get('py_name', name)
            if py not in fns: raise Refuse(f'field.py: function {py} not found')
            t = FnTranslator(None, fns[py], sig, all_sigs, rets)
            try:
                lname, text, ret = t.translate()
            except Refuse as e:
                raise Refuse(f'field.py:{name}: {e}')
            except (AttributeError, IndexError, KeyError, TypeError, ValueError) as e:
                raise Refuse(f'field.py:{name}: source structure changed ({type(e).__name__}: {e})')
            out.append(f'/-- translated from `field.py:{name}` (line {fns[py].lineno}); calls the definitions of Gen/Extent.lean -/\n' + text)
        return '\n'.join(out), [note]
    return gen

generate_mul_array = _generate_with_extent(FIELDMULARRAY, '_mul_array: index flow after _mul_broadcast; the array product and the empty result are checked textually')

# ------------------------------------------------------------------------------------------------ Field.__init__
def _field_init_block(tr, stmts):
    """`Field.__init__`: `self.offset = offset if offset is not None else [0, 0]` and
    `self.extent = lentil.extent.array_extent(self.shape, self.offset)` with `self.X` read as the local `self_X` and
    `self.shape` (the property `return self.data.shape`, checked by the generator) as the parameter `shape`; the other three
    attribute assignments (data / pixelscale / tilt) are matched textually. Emits (self.offset, self.extent)."""
    body = [s for s in stmts if not (isinstance(s, ast.Expr) and isinstance(getattr(s, 'value', None), ast.Constant))]
    want = ['data', 'pixelscale', 'offset', 'tilt', 'extent']
    tg = [ast.unparse(s.targets[0]) if isinstance(s, ast.Assign) and len(s.targets) == 1 else '?' for s in body]
    if tg != ['self.' + w for w in want]: raise Refuse('Field.__init__: attribute assignments changed: ' + ', '.join(tg))
    same = lambda st, txt: ast.dump(st) == ast.dump(ast.parse(txt).body[0])
    if not same(body[0], 'self.data = np.asarray(data, dtype=complex)') or not same(body[1], 'self.pixelscale = pixelscale') \
            or not same(body[3], 'self.tilt = tilt if tilt else []'):
        raise Refuse('Field.__init__: data / pixelscale / tilt assignment changed')
    class Rw(ast.NodeTransformer):
        def visit_Attribute(self, node):
            if isinstance(node.value, ast.Name) and node.value.id == 'self':
                if node.attr == 'shape': return ast.Name(id='shape', ctx=ast.Load())
                if node.attr in ('offset', 'extent'): return ast.Name(id='self_' + node.attr, ctx=node.ctx)
                raise Refuse('Field.__init__: reads self.' + node.attr)
            return self.generic_visit(node)
    import copy
    new = [ast.fix_missing_locations(Rw().visit(copy.deepcopy(body[i]))) for i in (2, 4)]
    return new, lambda env: V([env['self_offset'], env['self_extent']])

FIELDINIT = {
    '__init__': {'lean_name': 'fieldInit', 'block': _field_init_block, 'params': [('shape', 'pair'), ('offset', 'pair')]},
    '__init__#default': {'py_name': '__init__', 'lean_name': 'fieldInitDefault', 'block': _field_init_block,
                         'params': [('shape', 'pair'), ('offset', 'none')]},
}

generate_field_init = _generate_with_extent(FIELDINIT, 'Field.__init__: offset default and cached extent; data / pixelscale / tilt assignments checked textually')

# ------------------------------------------------------------------------------------------------ _merge: statement flow
def generate_merge_flow(repo):
    """Gen/FieldMergeFlow.lean: the statements of `lentil.field._merge` after the pixelscale guard —
    `out = np.zeros(H1(fields), dtype=complex)`, `slices = H2(fields)`, `for field, slc in zip(fields, slices): out[slc] += field.data`,
    `return Field(data=out, pixelscale=fields[0].pixelscale, offset=H3(fields))` — as: the fill value of the canvas, which helper
    gives its shape / the per-field slice / the result offset (emitted as calls of the generated helpers of Gen/FieldIdx.lean and
    Gen/FieldMerge.lean, so a swapped helper is a type error or a different definition), and whether the loop accumulates in place.
    `Lentil.mergeFlowL` (Model/FieldMergeFlow.lean) runs them; `Props/C06.merge_flow_spec`: = `mergeL`."""
    import os
    mod = ast.parse(open(os.path.join(repo, 'lentil/field.py')).read())
    fn = [n for n in mod.body if isinstance(n, ast.FunctionDef) and n.name == '_merge']
    if len(fn) != 1: raise Refuse('field.py: _merge not found')
    body = [s for s in fn[0].body if not (isinstance(s, ast.Expr) and isinstance(s.value, ast.Constant))]
    if len(body) != 5: raise Refuse('_merge: expected guard, canvas, slices, loop, return')
    same = lambda st, txt: ast.dump(st) == ast.dump(ast.parse(txt).body[0])
    if not same(body[0], 'if not np.all([f.pixelscale == fields[0].pixelscale for f in fields]):\n    raise ValueError("Can\'t merge: pixelscales must be equal")'):
        raise Refuse('_merge: pixelscale guard changed')
    helpers = {'_merge_shape': 'mergeShape', '_merge_slices': 'mergeSlice', '_merge_offset': 'mergeOffset'}
    def helper(call, what):
        if not (isinstance(call, ast.Call) and isinstance(call.func, ast.Name) and call.func.id in helpers and not call.keywords
                and len(call.args) == 1 and ast.unparse(call.args[0]) == 'fields'):
            raise Refuse(f'_merge: {what} is not a helper called on `fields`: ' + ast.unparse(call)[:60])
        return helpers[call.func.id]
    # canvas
    cv = body[1]
    if not (isinstance(cv, ast.Assign) and len(cv.targets) == 1 and ast.unparse(cv.targets[0]) == 'out' and isinstance(cv.value, ast.Call)
            and ast.unparse(cv.value.func) in ('np.zeros', 'np.ones') and len(cv.value.args) == 1
            and [(k.arg, ast.unparse(k.value)) for k in cv.value.keywords] == [('dtype', 'complex')]):
        raise Refuse('_merge: canvas statement changed: ' + ast.unparse(cv)[:80])
    fill = 0 if ast.unparse(cv.value.func) == 'np.zeros' else 1
    h_shape = helper(cv.value.args[0], 'canvas shape')
    # slices
    sl = body[2]
    if not (isinstance(sl, ast.Assign) and len(sl.targets) == 1 and ast.unparse(sl.targets[0]) == 'slices'): raise Refuse('_merge: slices statement changed')
    h_slice = helper(sl.value, 'slices')
    # loop
    lp = body[3]
    if not (isinstance(lp, ast.For) and not lp.orelse and len(lp.body) == 1 and isinstance(lp.target, ast.Tuple)
            and [ast.unparse(x) for x in lp.target.elts] == ['field', 'slc'] and ast.unparse(lp.iter) == 'zip(fields, slices)'):
        raise Refuse('_merge: loop header changed: ' + ast.unparse(lp).split('\n')[0][:80])
    st = lp.body[0]
    if isinstance(st, ast.AugAssign) and isinstance(st.op, ast.Add): inplace, tgt = True, st.target
    elif isinstance(st, ast.Assign) and len(st.targets) == 1: inplace, tgt = False, st.targets[0]
    else: raise Refuse('_merge: loop statement is neither `+=` nor `=`: ' + ast.unparse(st)[:60])
    if ast.unparse(tgt) != 'out[slc]' or ast.unparse(st.value) != 'field.data': raise Refuse('_merge: loop statement changed: ' + ast.unparse(st)[:60])
    # result
    rt = body[4]
    if not (isinstance(rt, ast.Return) and isinstance(rt.value, ast.Call) and ast.unparse(rt.value.func) == 'Field' and not rt.value.args):
        raise Refuse('_merge: does not return Field(...)')
    kw = {k.arg: k.value for k in rt.value.keywords}
    if sorted(kw) != ['data', 'offset', 'pixelscale'] or ast.unparse(kw['data']) != 'out' or ast.unparse(kw['pixelscale']) != 'fields[0].pixelscale':
        raise Refuse('_merge: arguments of the returned Field changed')
    h_off = helper(kw['offset'], 'result offset')
    args = {'mergeShape': 'b_0 b_1 b_2 b_3 all0d', 'mergeOffset': 'b_0 b_1 b_2 b_3', 'mergeSlice': 'b_0 b_1 b_2 b_3 e_0 e_1 e_2 e_3'}
    def wrap(name, role_helper, params, ty, doc):
        need = args[role_helper].split()
        if not set(need) <= set(params.split()): raise Refuse(f'_merge: {role_helper} cannot stand where {name} is needed')
        return f'/-- translated from `field.py:_merge` (line {fn[0].lineno}): {doc} -/\ndef {name} ({params} : Int) : {ty} :=\n  {role_helper} {args[role_helper]}\n'
    b = lambda x: 'true' if x else 'false'
    text = '\n'.join([
        f'/-- translated from `field.py:_merge` (line {fn[0].lineno}): initial value of every canvas sample (`np.zeros` = 0, `np.ones` = 1) -/\ndef mergeCanvasFill : Int := ({fill} : Int)\n',
        wrap('mergeCanvasShape', h_shape, 'b_0 b_1 b_2 b_3 all0d', '(Option (Int × Int))', 'the helper inside `np.zeros(…(fields), dtype=complex)`'),
        wrap('mergeFieldSlice', h_slice, 'b_0 b_1 b_2 b_3 e_0 e_1 e_2 e_3', '((Int × Int) × (Int × Int))', 'the helper of `slices = …(fields)`, per field (zip(fields, slices): same order)'),
        f'/-- translated from `field.py:_merge` (line {fn[0].lineno}): `out[slc] += field.data` accumulates in place (`+=`) rather than overwrites (`=`) -/\ndef mergeLoopInPlace : Bool := {b(inplace)}\n',
        wrap('mergeResultOffset', h_off, 'b_0 b_1 b_2 b_3', '(Int × Int)', 'the helper of `offset=…(fields)` in the returned Field (its data is `out`)'),
    ])
    return text, ['_merge: canvas fill, helper wiring (shape / slices / offset), in-place accumulation; guard, zip order and Field(...) arguments checked structurally']

# ------------------------------------------------------------------------------------------------ overlap: value of the pair branch
def _overlap_pair_value(tr, stmts):
    """`overlap(fields)`, branch `len(fields) == 2`: the returned expression with `fields[0].extent` / `fields[1].extent` read as
    the extent parameters e0 / e1 (any other use of `fields` is refused by the translator: unknown name)"""
    top = _first_if(stmts)
    if top is None or len(top.body) != 1 or not isinstance(top.body[0], ast.Return): raise Refuse('overlap: pair branch is not a single return')
    class Rw(ast.NodeTransformer):
        def visit_Attribute(self, node):
            v = node.value
            if node.attr == 'extent' and isinstance(v, ast.Subscript) and isinstance(v.value, ast.Name) and v.value.id == 'fields' \
                    and isinstance(v.slice, ast.Constant) and v.slice.value in (0, 1):
                return ast.Name(id=f'e{v.slice.value}', ctx=ast.Load())
            return self.generic_visit(node)
    import copy
    return [ast.fix_missing_locations(Rw().visit(copy.deepcopy(top.body[0])))], None

FIELDOVERLAPPAIR = {
    'overlap#pair_value': {'py_name': 'overlap', 'lean_name': 'overlapPairValue', 'block': _overlap_pair_value,
                           'params': [('e0', 'ext'), ('e1', 'ext')]},
}
generate_overlap_pair = _generate_with_extent(FIELDOVERLAPPAIR, 'overlap: value returned for two fields (extent test on fields[0], fields[1])')


def generate_reduce_flow(repo):
    """Gen/FieldReduceFlow.lean: what `lentil.field.reduce` appends for a group `f` in each branch of
    `if len(f['field']) > 1:` (the test itself is Gen.FieldDispatch.reduceMerges): `_merge(f['field'])` = the merge of the whole
    group, `f['field'][k]` = its k-th member; and that the groups come from `_reduce(fields)` and go out in order."""
    import os
    mod = ast.parse(open(os.path.join(repo, 'lentil/field.py')).read())
    fn = [n for n in mod.body if isinstance(n, ast.FunctionDef) and n.name == 'reduce']
    if len(fn) != 1: raise Refuse('field.py: reduce not found')
    body = [s for s in fn[0].body if not (isinstance(s, ast.Expr) and isinstance(s.value, ast.Constant))]
    if [ast.unparse(x) for x in (body[0], body[1], body[-1])] != ['fields = _reduce(fields)', 'out = []', 'return out'] or len(body) != 4:
        raise Refuse('reduce: statements around the loop changed')
    lp = body[2]
    if not (isinstance(lp, ast.For) and ast.unparse(lp.target) == 'f' and ast.unparse(lp.iter) == 'fields' and len(lp.body) == 1
            and isinstance(lp.body[0], ast.If) and len(lp.body[0].body) == 1 and len(lp.body[0].orelse) == 1 and not lp.orelse):
        raise Refuse('reduce: loop changed')
    def value(st):
        if not (isinstance(st, ast.Expr) and isinstance(st.value, ast.Call) and ast.unparse(st.value.func) == 'out.append'
                and len(st.value.args) == 1 and not st.value.keywords): raise Refuse('reduce: branch is not out.append(...)')
        v = st.value.args[0]
        if ast.unparse(v) == "_merge(f['field'])": return '.mergeAll'
        if isinstance(v, ast.Subscript) and ast.unparse(v.value) == "f['field']" and isinstance(v.slice, ast.Constant) and isinstance(v.slice.value, int) \
                and v.slice.value >= 0: return f'(.member {v.slice.value})'
        raise Refuse('reduce: appended value not understood: ' + ast.unparse(v)[:60])
    node = lp.body[0]
    text = f"""/-- what `reduce` appends for a group: the merge of all its members or its k-th member -/
inductive GroupOut where
  | mergeAll
  | member (k : Nat)
deriving Repr, DecidableEq

/-- translated from `field.py:reduce` (line {fn[0].lineno}): appended when `len(f['field']) > 1` -/
def reduceThenOut : GroupOut := {value(node.body[0])}
/-- translated from `field.py:reduce` (line {fn[0].lineno}): appended otherwise -/
def reduceElseOut : GroupOut := {value(node.orelse[0])}
"""
    return text, ['reduce: appended value of both branches; `fields = _reduce(fields)`, the loop over the groups in order and `return out` checked structurally']

# _merge_slices: the test of the origin branch (`out = [Ellipsis for field in fields]`, i.e. every slice is the whole array)
def _merge_slices_origin(tr, stmts):
    node = _first_if(stmts)
    if node is None or ast.unparse(node.body).strip() != 'out = [Ellipsis for field in fields]': raise Refuse('_merge_slices: origin branch changed')
    if ast.unparse(stmts[-1]).strip() != 'return out': raise Refuse('_merge_slices: return changed')
    return [], lambda env: tr.expr(node.test, env)
FIELDMERGEORIGIN = {
    '_merge_slices#origin': {'py_name': '_merge_slices', 'lean_name': 'mergeSlicesOrigin',
                             'params': [('rmin', 'int'), ('rmax', 'int'), ('cmin', 'int'), ('cmax', 'int')], 'block': _merge_slices_origin},
}

# ------------------------------------------------------------------------------------------------ public flow: _reduce / overlap / merge / insert defaults
def generate_public_flow(repo):
    """Gen/FieldPublicFlow.lean: the remaining value-carrying pieces of `_reduce`, `overlap`, `merge`, `_disjoint` and the defaults
    of `merge` / `insert`:
      * `_reduce`: `[{'field': [f, …], 'extent': f.extent} for f in fields]` -> how many copies of `f` start a group and that its
        extent is the member's cached extent; `return _disjoint(fields)`
      * `overlap`, many-branch: the two returned constants
      * `merge`: which of (a, b) go to `_merge` and in which order; the default of `enforce_overlap`
      * `_disjoint`: the `r` of `combinations(range(len(fields)), r)`
      * `insert`: the defaults of `intensity` and `weight`"""
    import os
    mod = ast.parse(open(os.path.join(repo, 'lentil/field.py')).read())
    fns = {n.name: n for n in mod.body if isinstance(n, ast.FunctionDef)}
    def body_of(name):
        if name not in fns: raise Refuse(f'field.py: {name} not found')
        return [s for s in fns[name].body if not (isinstance(s, ast.Expr) and isinstance(s.value, ast.Constant))]
    b = lambda x: 'true' if x else 'false'
    # ---- _reduce
    rb = body_of('_reduce')
    if len(rb) != 2 or ast.unparse(rb[1]) != 'return _disjoint(fields)': raise Refuse('_reduce: statements changed')
    st = rb[0]
    if not (isinstance(st, ast.Assign) and ast.unparse(st.targets[0]) == 'fields' and isinstance(st.value, ast.ListComp)
            and len(st.value.generators) == 1 and ast.unparse(st.value.generators[0].target) == 'f'
            and ast.unparse(st.value.generators[0].iter) == 'fields' and not st.value.generators[0].ifs
            and isinstance(st.value.elt, ast.Dict)):
        raise Refuse('_reduce: group construction is not a comprehension of dicts over `fields`')
    d = {ast.literal_eval(k): v for k, v in zip(st.value.elt.keys, st.value.elt.values)}
    if sorted(d) != ['extent', 'field']: raise Refuse('_reduce: group keys changed')
    if not (isinstance(d['field'], ast.List) and d['field'].elts and all(ast.unparse(x) == 'f' for x in d['field'].elts)):
        raise Refuse("_reduce: 'field' is not a list of copies of f")
    if ast.unparse(d['extent']) != 'f.extent': raise Refuse("_reduce: 'extent' is not f.extent")
    ncopies = len(d['field'].elts)
    # ---- overlap, many-branch
    top = _first_if(body_of('overlap'))
    if top is None or len(top.orelse) != 2 or ast.unparse(top.orelse[0]).strip() != 'fields = _reduce(fields)' or not isinstance(top.orelse[1], ast.If):
        raise Refuse('overlap: many-branch changed')
    node = top.orelse[1]
    consts = []
    for br in (node.body, node.orelse):
        if not (len(br) == 1 and isinstance(br[0], ast.Return) and isinstance(br[0].value, ast.Constant) and isinstance(br[0].value.value, bool)):
            raise Refuse('overlap: many-branch does not return constants')
        consts.append(br[0].value.value)
    # ---- merge
    mb = body_of('merge')
    if len(mb) != 2 or not (isinstance(mb[0], ast.If) and len(mb[0].body) == 1 and isinstance(mb[0].body[0], ast.Raise) and not mb[0].orelse):
        raise Refuse('merge: expected the refusal guard and one return')
    ret = [s for s in mb if isinstance(s, ast.Return)]
    if len(ret) != 1 or not (isinstance(ret[0].value, ast.Call) and ast.unparse(ret[0].value.func) == '_merge' and len(ret[0].value.args) == 1
                             and isinstance(ret[0].value.args[0], ast.Tuple)): raise Refuse('merge: accepted branch is not _merge((…))')
    idx = {'a': 0, 'b': 1}
    order = []
    for x in ret[0].value.args[0].elts:
        if not (isinstance(x, ast.Name) and x.id in idx): raise Refuse('merge: _merge called on something else than a / b')
        order.append(idx[x.id])
    ma = fns['merge'].args
    if [a.arg for a in ma.args] != ['a', 'b', 'enforce_overlap'] or len(ma.defaults) != 1 or not isinstance(ma.defaults[0], ast.Constant) \
            or not isinstance(ma.defaults[0].value, bool): raise Refuse('merge: signature changed')
    # ---- _disjoint scan
    scans = [n for n in ast.walk(fns['_disjoint']) if isinstance(n, ast.For)] if '_disjoint' in fns else []
    if len(scans) != 1 or not (isinstance(scans[0].iter, ast.Call) and ast.unparse(scans[0].iter.func) == 'combinations' and len(scans[0].iter.args) == 2
                               and ast.unparse(scans[0].iter.args[0]) == 'range(len(fields))' and isinstance(scans[0].iter.args[1], ast.Constant)
                               and isinstance(scans[0].iter.args[1].value, int)): raise Refuse('_disjoint: scan is not combinations(range(len(fields)), r)')
    r = scans[0].iter.args[1].value
    # ---- insert defaults
    ia = fns['insert'].args if 'insert' in fns else None
    if ia is None or [a.arg for a in ia.args] != ['field', 'out', 'intensity', 'weight'] or len(ia.defaults) != 2 \
            or not (isinstance(ia.defaults[0], ast.Constant) and isinstance(ia.defaults[0].value, bool)) \
            or not (isinstance(ia.defaults[1], ast.Constant) and type(ia.defaults[1].value) is int): raise Refuse('insert: signature changed')
    text = f"""/-- translated from `field.py:_reduce` (line {fns['_reduce'].lineno}): number of copies of `f` in `'field': [f]` of a fresh group (its `'extent'` is `f.extent`) -/
def reduceInitCopies : Nat := {ncopies}

/-- translated from `field.py:overlap` (line {fns['overlap'].lineno}): `if len(fields) > 1: return <this>` after `_reduce` -/
def overlapManyThen : Bool := {b(consts[0])}
/-- translated from `field.py:overlap`: `else: return <this>` -/
def overlapManyElse : Bool := {b(consts[1])}

/-- translated from `field.py:merge` (line {fns['merge'].lineno}): the tuple handed to `_merge` (0 = `a`, 1 = `b`) -/
def mergeAcceptedOrder : List Nat := {order}
/-- translated from `field.py:merge`: default of `enforce_overlap` -/
def mergeEnforceDefault : Bool := {b(ma.defaults[0].value)}

/-- translated from `field.py:_disjoint` (line {fns['_disjoint'].lineno}): `r` of `combinations(range(len(fields)), r)` -/
def disjointScanR : Nat := {r}

/-- translated from `field.py:insert` (line {fns['insert'].lineno}): defaults of `intensity` and `weight` -/
def insertDefaultIntensity : Bool := {b(ia.defaults[0].value)}
def insertDefaultWeight : Int := ({ia.defaults[1].value} : Int)
"""
    return text, ['_reduce group construction, overlap many-branch constants, merge accepted tuple and default, _disjoint scan arity, insert defaults']

# ------------------------------------------------------------------------------------------------ Field._mul_scalar: branch bodies
def generate_mul_scalar(repo):
    """Gen/FieldMulScalar.lean: the two branches of `Field._mul_scalar` (the test is Gen.FieldDispatch.mulScalarSame):
    `data = X.data * Y.data; offset = Z.offset` -> which operands are multiplied, in which order, and whose offset is kept
    (0 = self, 1 = other); `data = []; offset = None` -> the empty product; `return data, offset`"""
    import os
    mod = ast.parse(open(os.path.join(repo, 'lentil/field.py')).read())
    fn = [n for n in ast.walk(mod) if isinstance(n, ast.FunctionDef) and n.name == '_mul_scalar']
    if len(fn) != 1: raise Refuse('field.py: _mul_scalar not found')
    body = [s for s in fn[0].body if not (isinstance(s, ast.Expr) and isinstance(s.value, ast.Constant))]
    if len(body) != 2 or not isinstance(body[0], ast.If) or ast.dump(body[1]) != ast.dump(ast.parse('return data, offset').body[0]):
        raise Refuse('_mul_scalar: expected one if and `return data, offset`')
    node = body[0]
    if [ast.unparse(x) for x in node.orelse] != ['data = []', 'offset = None']: raise Refuse('_mul_scalar: empty branch changed')
    who = {'self': 0, 'other': 1}
    if len(node.body) != 2: raise Refuse('_mul_scalar: product branch changed')
    d, o = node.body
    def attr_of(e, a):
        if isinstance(e, ast.Attribute) and e.attr == a and isinstance(e.value, ast.Name) and e.value.id in who: return who[e.value.id]
        raise Refuse(f'_mul_scalar: expected <operand>.{a}: ' + ast.unparse(e)[:40])
    if not (isinstance(d, ast.Assign) and ast.unparse(d.targets[0]) == 'data' and isinstance(d.value, ast.BinOp) and isinstance(d.value.op, ast.Mult)):
        raise Refuse('_mul_scalar: data is not a product')
    if not (isinstance(o, ast.Assign) and ast.unparse(o.targets[0]) == 'offset'): raise Refuse('_mul_scalar: offset statement changed')
    fac = [attr_of(d.value.left, 'data'), attr_of(d.value.right, 'data')]
    off = attr_of(o.value, 'offset')
    text = f"""/-- translated from `field.py:_mul_scalar` (line {fn[0].lineno}): `data = X.data * Y.data` (0 = self, 1 = other) -/
def mulScalarFactors : Nat × Nat := ({fac[0]}, {fac[1]})
/-- translated from `field.py:_mul_scalar`: `offset = Z.offset` -/
def mulScalarOffsetOf : Nat := {off}
"""
    return text, ['_mul_scalar: factors and kept offset of the product branch; empty branch and return checked structurally']

FIELDDISPATCH = {
    # Field.__mul__: `if self.size == 1 and other.size == 1:` -> _mul_scalar, else _mul_array
    '__mul__#both_one': {'py_name': '__mul__', 'lean_name': 'mulBothOne', 'params': [('self', _SZ), ('other', _SZ)],
                         'block': _test(_first_if, what='Field.__mul__')},
    # Field._mul_scalar: `if np.array_equal(self.offset, other.offset):`
    '_mul_scalar#same': {'py_name': '_mul_scalar', 'lean_name': 'mulScalarSame', 'params': [('self', _OFF), ('other', _OFF)],
                         'block': _test(_first_if, what='Field._mul_scalar')},
    # overlap(): `if len(fields) == 2:` / `if len(fields) > 1: return False`
    'overlap#pair': {'py_name': 'overlap', 'lean_name': 'overlapIsPair', 'params': [('n', 'int')],
                     'block': _test(_overlap_pair, {'len(fields)': 'n'}, 'overlap')},
    'overlap#many': {'py_name': 'overlap', 'lean_name': 'overlapManyFalse', 'params': [('n', 'int')],
                     'block': _test(_overlap_many, {'len(fields)': 'n'}, 'overlap')},
    # reduce(): `if len(f['field']) > 1:` -> _merge, else the field itself
    'reduce#merges': {'py_name': 'reduce', 'lean_name': 'reduceMerges', 'params': [('n', 'int')],
                      'block': _test(_reduce_merges, {"len(f['field'])": 'n'}, 'reduce')},
    # merge(): `if enforce_overlap and not overlap((a, b)): raise`   (booleans as 0/1)
    'merge#refuse': {'py_name': 'merge', 'lean_name': 'mergeRefuses', 'params': [('enf', 'int'), ('ov', 'int')],
                     'block': _test(_merge_refuse, {'enforce_overlap': 'enf == 1', 'overlap((a, b))': 'ov == 1'}, 'merge')},
    # _disjoint: (group kept, group whose fields are appended, group whose extent is recomputed, group popped), m = 0, n = 1
    '_disjoint#step': {'py_name': '_disjoint', 'lean_name': 'disjointStep', 'params': [], 'block': _disjoint_step},
}

MODULES = [
    {'name': 'FieldMulScalar', 'src': 'lentil/field.py', 'generator': generate_mul_scalar, 'props': ['C06'], 'imports': []},
    {'name': 'FieldPublicFlow', 'src': 'lentil/field.py', 'generator': generate_public_flow, 'props': ['C06'], 'imports': []},
    {'name': 'FieldMergeOrigin', 'src': 'lentil/field.py', 'sigs': FIELDMERGEORIGIN, 'props': ['C06'], 'imports': []},
    {'name': 'FieldOverlapPair', 'src': 'lentil/field.py', 'generator': generate_overlap_pair, 'props': ['C06'], 'imports': ['LentilVerif.Gen.Extent']},
    {'name': 'FieldReduceFlow', 'src': 'lentil/field.py', 'generator': generate_reduce_flow, 'props': ['C06'], 'imports': []},
    {'name': 'FieldMergeFlow', 'src': 'lentil/field.py', 'generator': generate_merge_flow, 'props': ['C06'],
     'imports': ['LentilVerif.Gen.FieldIdx', 'LentilVerif.Gen.FieldMerge']},
    {'name': 'FieldInit', 'src': 'lentil/field.py', 'generator': generate_field_init, 'props': ['C06'], 'imports': ['LentilVerif.Gen.Extent']},
    {'name': 'FieldMulArray', 'src': 'lentil/field.py', 'generator': generate_mul_array, 'props': ['C06'], 'imports': ['LentilVerif.Gen.Extent']},
    {'name': 'FieldBroadcast', 'src': 'lentil/field.py', 'sigs': FIELDBROADCAST, 'props': ['C06'], 'imports': []},
    {'name': 'FieldAccum', 'src': 'lentil/field.py', 'generator': generate_accum, 'props': ['C06', 'C07', 'C02', 'C03', 'C04', 'C05', 'C09'], 'imports': []},
    {'name': 'FieldDispatch', 'src': 'lentil/field.py', 'sigs': FIELDDISPATCH, 'props': ['C06', 'C07', 'C02', 'C03', 'C04', 'C05', 'C09'], 'imports': []},
    {'name': 'FieldMerge', 'src': 'lentil/field.py', 'sigs': FIELDMERGE, 'props': ['C06', 'C07', 'C02', 'C03', 'C04', 'C05', 'C09'], 'imports': []},
]
