"""Translator spec for C04: the index/wiring part of tilt bookkeeping -> lean/LentilVerif/Gen/TiltFit.lean.

From lentil/plane.py and lentil/field.py (float expressions over an abstract scalar type `R`, integer slice bounds over Int):
  * `Plane.ptt_vector`: the three basis rows `[np.ones, r, -c]` scaled by `[1, pixelscale[0], pixelscale[1]]` (`pttRow`); the mask
    factor and the per-segment row block `3*mask : 3*mask+3` (`pttSegRows`);
  * `Plane.fit_tilt`: which rows of the basis and which coefficients are subtracted (`fitSubRows`, `fitSubCoefs`), which
    coefficients are recorded as `Tilt(x=…, y=…)` (`fitRecord`), the per-segment variants (`fitSegLstsqRows`, `fitSegSubRows`,
    `fitSegSubCoefs`, `fitSegRecord`), and that the segmented OPD is `sum((opd - seg_tilt) * mask[seg])`;
  * `Plane.multiply`: `tilt=self.tilt[n::self.size]` (`tiltStride`);
  * `Tilt.__init__` / `Tilt.shift` (`tiltShift`), `Field.shift`'s unit/axis conversion (`fieldShiftOut`, `fieldShiftIJ`).
Statement shapes are checked one by one; anything else is refused (refusal = broken tie)."""
import ast, os
from py2lean import FnTranslator, Refuse, V, S, lean_val

RC = '{R : Type} [Add R] [Sub R] [Mul R] [Div R] [Neg R]'

class _L(str):
    """a symbolic coefficient list (polynomial of any order)"""

def _rx(e, env):
    if isinstance(e, ast.Constant) and e.value == 1: return env['__one__']
    if isinstance(e, ast.Constant) and e.value == 0 and '__zero__' in env: return env['__zero__']
    if isinstance(e, ast.Name):
        if e.id not in env: raise Refuse(f'unknown name {e.id}')
        return env[e.id]
    if isinstance(e, ast.Attribute):
        k = ast.unparse(e)
        if k not in env: raise Refuse(f'unknown attribute {k}')
        return env[k]
    if isinstance(e, ast.Subscript):
        b = _rx(e.value, env)
        if not (isinstance(b, list) and isinstance(e.slice, ast.Constant) and isinstance(e.slice.value, int) and 0 <= e.slice.value < len(b)):
            raise Refuse('subscript ' + ast.unparse(e))
        return b[e.slice.value]
    if isinstance(e, ast.Tuple): return [_rx(x, env) for x in e.elts]
    if isinstance(e, ast.UnaryOp) and isinstance(e.op, ast.USub):
        v = _rx(e.operand, env)
        return [f'(-{x})' for x in v] if isinstance(v, list) else f'(-{v})'
    if isinstance(e, ast.BinOp) and isinstance(e.op, ast.Pow) and isinstance(e.right, ast.Constant) and e.right.value == 2:
        a = _rx(e.left, env)
        if isinstance(a, list): raise Refuse('square of a vector')
        return f'({a} * {a})'
    if isinstance(e, ast.BinOp):
        ops = {ast.Add: '+', ast.Sub: '-', ast.Mult: '*', ast.Div: '/'}
        if type(e.op) not in ops: raise Refuse('operator ' + type(e.op).__name__)
        a, b, o = _rx(e.left, env), _rx(e.right, env), ops[type(e.op)]
        if isinstance(a, list) or isinstance(b, list): raise Refuse('vector arithmetic ' + ast.unparse(e)[:40])
        return f'({a} {o} {b})'
    if isinstance(e, ast.Call):
        f = ast.unparse(e.func)
        if f == 'np.ones' and len(e.args) == 1: return env['__one__']          # a column of ones
        if f.endswith('.ravel') and not e.args: return _rx(e.func.value, env)    # flattening keeps the sample
        if f == 'np.sqrt' and len(e.args) == 1 and 'sqrt' in env: return f'(sqrt {_rx(e.args[0], env)})'
        if f == 'np.polyder' and len(e.args) == 1 and not e.keywords:
            p_ = _rx(e.args[0], env)
            if not isinstance(p_, _L): raise Refuse('polyder of something that is not a coefficient list')
            return _L(f'(polyder {p_})')
        if f == 'self._arc_len' and len(e.args) == 3 and not e.keywords and 'arcLen' in env:
            if ast.unparse(e.args[0]) != env['arcLen']: raise Refuse('arc length of a different integrand: ' + ast.unparse(e.args[0]))
            return f'(arcLen integrand {_rx(e.args[1], env)} {_rx(e.args[2], env)})'
        if f in env.get('__inline__', {}) and len(e.args) == 1 and not e.keywords:
            fn = env['__inline__'][f]
            body = [n for n in fn.body if not (isinstance(n, ast.Expr) and isinstance(n.value, ast.Constant))]
            if len(body) != 1 or not isinstance(body[0], ast.Return) or [a.arg for a in fn.args.args][0] != 'self' or len(fn.args.args) != 2:
                raise Refuse(f'{f}: not a one-argument single-return method')
            return _rx(body[0].value, {**env, fn.args.args[1].arg: _rx(e.args[0], env)})
        if f == 'np.polyval' and len(e.args) == 2 and isinstance(_rx(e.args[0], env), _L):
            x_ = _rx(e.args[1], env)
            if isinstance(x_, list): raise Refuse('polyval at a vector')
            return f'(polyval {_rx(e.args[0], env)} {x_})'
        if f == 'np.polyval' and len(e.args) == 2:
            p_ = _rx(e.args[0], env); x_ = _rx(e.args[1], env)
            if not (isinstance(p_, list) and len(p_) == 2) or isinstance(x_, list): raise Refuse('polyval: only first-order polynomials')
            return f'(({p_[0]} * {x_}) + {p_[1]})'          # Horner: (0*x + p0)*x + p1
    raise Refuse('expression ' + ast.unparse(e)[:60])

def _method(mod, cls, name):
    for c in ast.walk(mod):
        if isinstance(c, ast.ClassDef) and c.name == cls:
            for f in c.body:
                if isinstance(f, ast.FunctionDef) and f.name == name: return f
    raise Refuse(f'{cls}.{name} not found')

def _islice(tr, sl, env):
    if not (isinstance(sl, ast.Slice) and sl.lower is not None and sl.upper is not None and sl.step is None): raise Refuse('slice ' + ast.unparse(sl))
    lo, hi = tr.expr(sl.lower, env), tr.expr(sl.upper, env)
    return f'({lo.e}, {hi.e})'

def _one(nodes, what):
    if len(nodes) != 1: raise Refuse(f'{what}: expected exactly one, found {len(nodes)}')
    return nodes[0]

def generate(repo):
    mod = ast.parse(open(os.path.join(repo, 'lentil/plane.py')).read())
    fmod = ast.parse(open(os.path.join(repo, 'lentil/field.py')).read())
    hmod = ast.unparse(ast.parse(open(os.path.join(repo, 'lentil/helper.py')).read()))    # normalised: formatting and comments do not matter
    out = []
    tr = FnTranslator(None, _method(mod, 'Plane', 'fit_tilt'), {'params': []}, {}, {})
    # ---------------- helper.mesh: the coordinates themselves are regenerated (Gen/Mesh.lean, spec c20) and tied to the model's `cc` by
    # theorem C04.ptt_mesh_is_generated; here only the defaults that theorem instantiates (`shift=(0, 0)`, `angle=0`) are guarded
    if 'def mesh(shape, shift=(0, 0), angle=0):' not in hmod:
        raise Refuse('helper.mesh: signature/defaults are no longer mesh(shape, shift=(0, 0), angle=0)')
    # ---------------- ptt_vector
    pv = _method(mod, 'Plane', 'ptt_vector')
    if ast.unparse(_one([n for n in ast.walk(pv) if isinstance(n, ast.Assign) and ast.unparse(n.targets[0]) in ('(r, c)', 'r, c')], 'ptt_vector: r, c').value) != 'lentil.helper.mesh(self.shape)':
        raise Refuse('ptt_vector: r, c no longer from lentil.helper.mesh(self.shape)')
    un = _one([n for n in ast.walk(pv) if isinstance(n, ast.Assign) and ast.unparse(n.targets[0]) == 'unmasked_ptt_vector'], 'unmasked_ptt_vector').value
    if not (isinstance(un, ast.Call) and ast.unparse(un.func) == 'np.einsum' and len(un.args) == 3 and ast.unparse(un.args[0]) == "'ij,i->ij'"
            and isinstance(un.args[1], ast.List) and isinstance(un.args[2], ast.List) and len(un.args[1].elts) == 3 and len(un.args[2].elts) == 3):
        raise Refuse('ptt_vector: unmasked_ptt_vector is no longer einsum(ij,i->ij, [3 rows], [3 scales])')
    env = {'__one__': 'one', 'r': 'r', 'c': 'c', 'self.pixelscale': ['px0', 'px1']}
    rows = [f'({_rx(b, env)} * {_rx(sc, env)})' for b, sc in zip(un.args[1].elts, un.args[2].elts)]
    out.append(f'/-- translated from `plane.py:Plane.ptt_vector` (line {un.lineno}): the three unmasked basis rows at a sample with mesh\n'
               f'coordinates `(r, c)`: `einsum(\'ij,i->ij\', [ones, r, -c], [1, pixelscale[0], pixelscale[1]])` -/\n'
               f'def pttRow {RC} (one r c px0 px1 : R) : R × R × R :=\n  ({rows[0]}, {rows[1]}, {rows[2]})\n')
    m1 = _one([n for n in ast.walk(pv) if isinstance(n, ast.Assign) and ast.unparse(n.targets[0]) == 'ptt_vector'
               and isinstance(n.value, ast.Call) and ast.unparse(n.value.func) == 'np.einsum'], 'ptt_vector: single-mask einsum')
    if ast.unparse(m1.value) != "np.einsum('ij,j->ij', unmasked_ptt_vector, self.mask.ravel())": raise Refuse('ptt_vector: mask factor (one mask) changed')
    ms = _one([n for n in ast.walk(pv) if isinstance(n, ast.Assign) and isinstance(n.targets[0], ast.Subscript)
               and ast.unparse(n.targets[0].value) == 'ptt_vector'], 'ptt_vector: segment block')
    if ast.unparse(ms.value) != 'unmasked_ptt_vector * self.mask[mask].ravel()': raise Refuse('ptt_vector: mask factor (segments) changed')
    out.append(f'/-- translated from `plane.py:Plane.ptt_vector` (line {ms.lineno}): rows of segment `mask` in the stacked basis -/\n'
               f'def pttSegRows (mask : Int) : Int × Int :=\n  {_islice(tr, ms.targets[0].slice, {"mask": S("mask")})}\n')
    # ---------------- fit_tilt
    ft = _method(mod, 'Plane', 'fit_tilt')
    # the early return (`return plane` untouched) and ptt_vector's `None` branch: boolean tests over named atoms
    def btest(e, atoms):
        if isinstance(e, ast.BoolOp) and isinstance(e.op, (ast.Or, ast.And)):
            return '(' + (' || ' if isinstance(e.op, ast.Or) else ' && ').join(btest(v, atoms) for v in e.values) + ')'
        if isinstance(e, ast.UnaryOp) and isinstance(e.op, ast.Not): return f'(!{btest(e.operand, atoms)})'
        if isinstance(e, ast.Compare) and len(e.ops) == 1:
            l, o, r = ast.unparse(e.left), e.ops[0], e.comparators[0]
            key = (l, type(o).__name__, ast.unparse(r))
            if key in atoms: return atoms[key]
            if (l, 'int') in atoms and isinstance(r, ast.Constant) and isinstance(r.value, int) and not isinstance(r.value, bool):
                cmpo = {ast.Eq: '=', ast.NotEq: '≠', ast.Lt: '<', ast.LtE: '≤', ast.Gt: '>', ast.GtE: '≥'}.get(type(o))
                if cmpo is None: raise Refuse('comparison ' + ast.unparse(e))
                return f'decide ({atoms[(l, "int")]} {cmpo} {r.value})'
        raise Refuse('boolean test ' + ast.unparse(e)[:60])
    ftb = [n for n in ft.body if not (isinstance(n, ast.Expr) and isinstance(n.value, ast.Constant))]
    early = [i for i, n in enumerate(ftb) if isinstance(n, ast.If) and any(isinstance(x, ast.Return) for x in n.body)]
    isz = [i for i, n in enumerate(ftb) if isinstance(n, ast.If) and ast.unparse(n.test) == 'self.size == 1']
    ipv = [i for i, n in enumerate(ftb) if isinstance(n, ast.Assign) and ast.unparse(n) == 'ptt_vector = plane.ptt_vector']
    if len(early) != 1 or len(isz) != 1 or len(ipv) != 1 or not (ipv[0] < early[0] < isz[0]):
        raise Refuse('fit_tilt: expected `ptt_vector = plane.ptt_vector`, then one early-return test, then the `self.size == 1` branch')
    er = ftb[early[0]]
    if [ast.unparse(x) for x in er.body] != ['return plane'] or er.orelse: raise Refuse('fit_tilt: the early return is no longer a bare `return plane`')
    out.append(f'/-- translated from `plane.py:Plane.fit_tilt` (line {er.lineno}): the test under which the plane is returned as it is (no fit, nothing recorded);\n'
               f'`ptt_none` = `ptt_vector is None`, `opd_size` = `plane.opd.size` -/\n'
               f'def fitTiltSkips (ptt_none : Bool) (opd_size : Int) : Bool :=\n  '
               f'{btest(er.test, {("ptt_vector", "Is", "None"): "ptt_none", ("ptt_vector", "IsNot", "None"): "(!ptt_none)", ("plane.opd.size", "int"): "opd_size"})}\n')
    pvm = _method(mod, 'Plane', 'ptt_vector')
    pvb = [n for n in pvm.body if isinstance(n, ast.If)]
    if len(pvb) != 1 or [ast.unparse(x) for x in pvb[0].body] != ['ptt_vector = None']: raise Refuse('ptt_vector: the `ptt_vector = None` branch changed')
    out.append(f'/-- translated from `plane.py:Plane.ptt_vector` (line {pvb[0].lineno}): when there is no basis (`ptt_vector = None`); `shape_empty` = `self.shape == ()`,\n'
               f'`shape_none` = `self.shape is None` -/\n'
               f'def pttVectorNone (shape_empty shape_none : Bool) : Bool :=\n  '
               f'{btest(pvb[0].test, {("self.shape", "Eq", "()"): "shape_empty", ("self.shape", "Is", "None"): "shape_none"})}\n')
    br = _one([n for n in ast.walk(ft) if isinstance(n, ast.If) and ast.unparse(n.test) == 'self.size == 1'], 'fit_tilt: size branch')
    single, seg = br.body, br.orelse
    src1 = [ast.unparse(s) for s in single]
    want1 = ['t = np.linalg.lstsq(ptt_vector.T, plane.opd.ravel(), rcond=None)[0]', None,
             'plane.opd -= opd_tilt.reshape(plane.opd.shape)', None]
    if len(single) != 4 or src1[0] != want1[0] or src1[2] != want1[2]: raise Refuse('fit_tilt (one mask): statements changed: ' + ' | '.join(x[:50] for x in src1))
    e1 = single[1].value
    if not (isinstance(e1, ast.Call) and ast.unparse(e1.func) == 'np.einsum' and ast.unparse(e1.args[0]) == "'ij,i->j'" and len(e1.args) == 3
            and ast.unparse(e1.args[1].value) == 'ptt_vector' and ast.unparse(e1.args[2].value) == 't' and ast.unparse(single[1].targets[0]) == 'opd_tilt'):
        raise Refuse('fit_tilt (one mask): opd_tilt is no longer einsum(ij,i->j, ptt_vector[a:b], t[a:b])')
    out.append(f'/-- translated from `plane.py:Plane.fit_tilt` (line {single[1].lineno}): rows of the basis whose combination is subtracted -/\n'
               f'def fitSubRows : Int × Int :=\n  {_islice(tr, e1.args[1].slice, {})}\n')
    out.append(f'/-- translated from `plane.py:Plane.fit_tilt` (line {single[1].lineno}): coefficients of `t` used for the subtraction -/\n'
               f'def fitSubCoefs : Int × Int :=\n  {_islice(tr, e1.args[2].slice, {})}\n')
    def record(call, env, what):
        if not (isinstance(call, ast.Call) and ast.unparse(call.func) == 'Tilt' and not call.args and [k.arg for k in call.keywords] == ['x', 'y']):
            raise Refuse(f'fit_tilt ({what}): recorded element is no longer Tilt(x=…, y=…)')
        idx = []
        for k in call.keywords:
            v = k.value
            if not (isinstance(v, ast.Subscript) and ast.unparse(v.value) == 't'): raise Refuse(f'fit_tilt ({what}): recorded angle is not an entry of t')
            sl = v.slice
            if isinstance(sl, ast.Tuple):
                if len(sl.elts) != 2 or ast.unparse(sl.elts[0]) != 'seg': raise Refuse(f'fit_tilt ({what}): t[seg, k] expected')
                sl = sl.elts[1]
            idx.append(tr.expr(sl, env).e)
        return f'({idx[0]}, {idx[1]})'
    app = single[3].value
    if not (isinstance(app, ast.Call) and ast.unparse(app.func) == 'plane.tilt.append' and len(app.args) == 1): raise Refuse('fit_tilt (one mask): no plane.tilt.append(Tilt(...))')
    out.append(f'/-- translated from `plane.py:Plane.fit_tilt` (line {single[3].lineno}): indices of `t` recorded as `Tilt(x=t[·], y=t[·])` -/\n'
               f'def fitRecord : Int × Int :=\n  {record(app.args[0], {}, "one mask")}\n')
    # segmented branch
    loop = _one([s for s in seg if isinstance(s, ast.For)], 'fit_tilt: segment loop')
    if ast.unparse(loop.target) != 'seg' or ast.unparse(loop.iter) != 'np.arange(self.size)' or len(loop.body) != 3: raise Refuse('fit_tilt: segment loop changed')
    l0, l1, l2 = loop.body
    envs = {'seg': S('seg')}
    lst = l0.value
    if not (ast.unparse(l0.targets[0]) == 't[seg]' and isinstance(lst, ast.Subscript) and ast.unparse(lst.slice) == '0' and isinstance(lst.value, ast.Call)
            and ast.unparse(lst.value.func) == 'np.linalg.lstsq' and ast.unparse(lst.value.args[1]) == 'plane.opd.ravel()'
            and isinstance(lst.value.args[0], ast.Attribute) and lst.value.args[0].attr == 'T' and ast.unparse(lst.value.args[0].value.value) == 'ptt_vector'):
        raise Refuse('fit_tilt (segments): lstsq call changed')
    out.append(f'/-- translated from `plane.py:Plane.fit_tilt` (line {l0.lineno}): basis rows handed to lstsq for segment `seg` -/\n'
               f'def fitSegLstsqRows (seg : Int) : Int × Int :=\n  {_islice(tr, lst.value.args[0].value.slice, envs)}\n')
    e2 = l1.value
    if not (ast.unparse(l1.targets[0]) == 'seg_tilt' and isinstance(e2, ast.Call) and ast.unparse(e2.func) == 'np.einsum' and ast.unparse(e2.args[0]) == "'ij,i->j'"
            and ast.unparse(e2.args[1].value) == 'ptt_vector' and ast.unparse(e2.args[2].value) == 't'
            and isinstance(e2.args[2].slice, ast.Tuple) and ast.unparse(e2.args[2].slice.elts[0]) == 'seg'):
        raise Refuse('fit_tilt (segments): seg_tilt changed')
    out.append(f'/-- translated from `plane.py:Plane.fit_tilt` (line {l1.lineno}): basis rows subtracted for segment `seg` -/\n'
               f'def fitSegSubRows (seg : Int) : Int × Int :=\n  {_islice(tr, e2.args[1].slice, envs)}\n')
    out.append(f'/-- translated from `plane.py:Plane.fit_tilt` (line {l1.lineno}): coefficients of `t[seg]` used for the subtraction -/\n'
               f'def fitSegSubCoefs : Int × Int :=\n  {_islice(tr, e2.args[2].slice.elts[1], envs)}\n')
    # the per-segment term, translated per sample: `.reshape(plane.opd.shape)` keeps the sample, `self.mask[seg]` is the segment's mask value
    if not (isinstance(l2, ast.Assign) and ast.unparse(l2.targets[0]) == 'opd_no_tilt[seg]'): raise Refuse('fit_tilt (segments): opd_no_tilt[seg] is no longer assigned in the loop')
    class _T(ast.NodeTransformer):
        def visit_Call(self, n):
            n = self.generic_visit(n)
            if isinstance(n.func, ast.Attribute) and n.func.attr == 'reshape' and [ast.unparse(a) for a in n.args] == ['plane.opd.shape'] and not n.keywords: return n.func.value
            return n
        def visit_Subscript(self, n):
            if ast.unparse(n) == 'self.mask[seg]': return ast.Name(id='mask_seg', ctx=ast.Load())
            return self.generic_visit(n)
    term = _rx(_T().visit(ast.parse(ast.unparse(l2.value), mode='eval').body), {'plane.opd': 'opd', 'seg_tilt': 'seg_tilt', 'mask_seg': 'mask_seg', '__one__': 'one'})
    if isinstance(term, list): raise Refuse('fit_tilt (segments): opd_no_tilt term is not a scalar expression')
    out.append(f'/-- translated from `plane.py:Plane.fit_tilt` (line {l2.lineno}): the term of segment `seg` at one sample, `opd_no_tilt[seg]`; `opd` = `plane.opd`, `seg_tilt` = the\n'
               f'subtracted ramp, `mask_seg` = `self.mask[seg]` at that sample; the new OPD is the sum of these terms over the segments -/\n'
               f'def fitSegOpdTerm {RC} (opd seg_tilt mask_seg : R) : R :=\n  {term}\n')
    rest = [ast.unparse(s) for s in seg if not isinstance(s, ast.For)]
    if 'plane.opd = np.sum(opd_no_tilt, axis=0)' not in rest: raise Refuse('fit_tilt (segments): plane.opd is no longer the sum over segments')
    ext = _one([s for s in seg if isinstance(s, ast.Expr) and isinstance(s.value, ast.Call) and ast.unparse(s.value.func) == 'plane.tilt.extend'], 'fit_tilt: tilt.extend')
    comp = ext.value.args[0]
    if not (isinstance(comp, ast.ListComp) and ast.unparse(comp.generators[0].target) == 'seg' and ast.unparse(comp.generators[0].iter) == 'range(self.size)'):
        raise Refuse('fit_tilt (segments): recorded tilts are no longer one per segment in segment order')
    out.append(f'/-- translated from `plane.py:Plane.fit_tilt` (line {ext.lineno}): indices of `t[seg]` recorded as `Tilt(x=…, y=…)`, one per segment in order -/\n'
               f'def fitSegRecord : Int × Int :=\n  {record(comp.elt, envs, "segments")}\n')
    # ---------------- multiply: tilt=self.tilt[n::self.size]
    mu = _method(mod, 'Plane', 'multiply')
    kw = _one([k for n in ast.walk(mu) if isinstance(n, ast.Call) and ast.unparse(n.func) == 'Field' for k in n.keywords if k.arg == 'tilt'], 'multiply: Field(tilt=…)')
    v = kw.value
    if not (isinstance(v, ast.Subscript) and ast.unparse(v.value) == 'self.tilt' and isinstance(v.slice, ast.Slice) and v.slice.upper is None
            and v.slice.lower is not None and v.slice.step is not None):
        raise Refuse('multiply: phasor tilt is no longer self.tilt[start::step]')
    envm = {'n': S('n'), 'self': None}
    st = ast.unparse(v.slice.step)
    if st != 'self.size': raise Refuse('multiply: stride is no longer self.size')
    out.append(f'/-- translated from `plane.py:Plane.multiply` (line {v.lineno}): segment `n` of a plane with `size` segments gets the recorded tilts\n'
               f'`self.tilt[start::step]` -/\ndef tiltStride (n size : Int) : Int × Int :=\n  ({tr.expr(v.slice.lower, envm).e}, size)\n')
    # ---------------- Tilt.__init__ / Tilt.shift
    ti, ts = _method(mod, 'Tilt', '__init__'), _method(mod, 'Tilt', 'shift')
    attr = {}
    for n in ti.body:
        if isinstance(n, ast.Assign) and ast.unparse(n.targets[0]) in ('self.x', 'self.y'):
            if ast.unparse(n.value) not in ('x', 'y'): raise Refuse('Tilt.__init__: attribute is not a constructor argument')
            attr[ast.unparse(n.targets[0])] = ast.unparse(n.value) + 'Arg'
    if set(attr) != {'self.x', 'self.y'}: raise Refuse('Tilt.__init__: self.x / self.y assignments not found')
    envt = {'xs': 'xs', 'ys': 'ys', 'z': 'z', '__one__': 'one'}; envt.update(attr)
    body = [s for s in ts.body if not (isinstance(s, ast.Expr) and isinstance(s.value, ast.Constant))]
    if len(body) != 3 or ast.unparse(body[2]) not in ('return (x, y)', 'return x, y'): raise Refuse('Tilt.shift: body changed')
    for s_ in body[:2]: envt[ast.unparse(s_.targets[0])] = _rx(s_.value, envt)
    out.append(f'/-- translated from `plane.py:Tilt.__init__` (line {ti.lineno}) and `Tilt.shift` (line {ts.lineno}): `Tilt(x=xArg, y=yArg).shift(xs, ys, z)` -/\n'
               f'def tiltShift {RC} (xArg yArg xs ys z : R) : R × R :=\n  ({envt["x"]}, {envt["y"]})\n')
    # ---------------- Field.shift: metres -> oversampled pixels, xy -> ij
    fs = _method(fmod, 'Field', 'shift')
    outs = [n for n in ast.walk(fs) if isinstance(n, ast.Assign) and ast.unparse(n.targets[0]) == 'out']
    if len(outs) != 2: raise Refuse('Field.shift: expected two assignments to out')
    envf = {'x': 'x', 'y': 'y', 'pixelscale': ['pixelscale_0', 'pixelscale_1'], 'oversample': 'oversample', '__one__': 'one'}
    o1 = _rx(outs[0].value, envf)
    out.append(f'/-- translated from `field.py:Field.shift` (line {outs[0].lineno}): metres to oversampled output samples, (x, y) order -/\n'
               f'def fieldShiftOut {RC} (x y pixelscale_0 pixelscale_1 oversample : R) : R × R :=\n  ({o1[0]}, {o1[1]})\n')
    ifij = _one([n for n in ast.walk(fs) if isinstance(n, ast.If) and ast.unparse(n.test) == "indexing == 'ij'"], "Field.shift: indexing == 'ij'")
    if outs[1] not in ifij.body: raise Refuse("Field.shift: second assignment to out is not under indexing == 'ij'")
    o2 = _rx(outs[1].value, {'out': ['out_0', 'out_1'], '__one__': 'one'})
    out.append(f'/-- translated from `field.py:Field.shift` (line {outs[1].lineno}): (x, y) to (row, column) -/\n'
               f'def fieldShiftIJ {RC} (out_0 out_1 : R) : R × R :=\n  ({o2[0]}, {o2[1]})\n')
    loop = _one([n for n in ast.walk(fs) if isinstance(n, ast.For)], 'Field.shift: loop')
    # the fold over self.tilt, translated: initial values, which accumulator feeds which keyword of tilt.shift, which result goes where
    if ast.unparse(loop.iter) != 'self.tilt' or ast.unparse(loop.target) != 'tilt' or len(loop.body) != 1 or loop.orelse: raise Refuse('Field.shift: the loop over self.tilt changed')
    fsb = [n for n in fs.body if not (isinstance(n, ast.Expr) and isinstance(n.value, ast.Constant))]
    li = fsb.index(loop) if loop in fsb else -1
    init = fsb[li - 1] if li > 0 else None
    if not (isinstance(init, ast.Assign) and ast.unparse(init.targets[0]) in ('(x, y)', 'x, y') and isinstance(init.value, ast.Tuple) and len(init.value.elts) == 2
            and all(isinstance(v, ast.Constant) and v.value in (0, 1) and not isinstance(v.value, bool) for v in init.value.elts)):
        raise Refuse('Field.shift: the accumulators are no longer initialised by `x, y = <0|1>, <0|1>` right before the loop')
    cst = {0: 'zero', 1: 'one'}
    st_ = loop.body[0]
    if not (isinstance(st_, ast.Assign) and ast.unparse(st_.targets[0]) in ('(x, y)', 'x, y', '(y, x)', 'y, x') and isinstance(st_.value, ast.Call)
            and ast.unparse(st_.value.func) == 'tilt.shift' and not st_.value.args):
        raise Refuse('Field.shift: loop body is no longer `x, y = tilt.shift(keywords)`')
    fkw_ = {k.arg: ast.unparse(k.value) for k in st_.value.keywords}
    acc = {'x': 'p.1', 'y': 'p.2', 'z': 'z', 'wavelength': 'wavelength'}
    if set(fkw_) != {'xs', 'ys', 'z', 'wavelength'} or any(v not in acc for v in fkw_.values()): raise Refuse(f'Field.shift: keywords of tilt.shift changed: {fkw_}')
    callx = f'shift t {acc[fkw_["xs"]]} {acc[fkw_["ys"]]} {acc[fkw_["z"]]} {acc[fkw_["wavelength"]]}'
    swapped = ast.unparse(st_.targets[0]).strip('()').startswith('y')
    out.append(f'/-- translated from `field.py:Field.shift` (line {init.lineno}): the fold over `self.tilt`; `shift t xs ys z wavelength` = `t.shift(xs=…, ys=…, z=…, wavelength=…)`,\n'
               f'the pair is the accumulator `(x, y)` -/\n'
               f'def fieldShiftFold {{R T : Type}} (shift : T → R → R → R → R → R × R) (zero one : R) (tilt : List T) (z wavelength : R) : R × R :=\n'
               f'  tilt.foldl (fun (p : R × R) t => ' + (f'(({callx}).2, ({callx}).1)' if swapped else f'{callx}') + f') ({cst[init.value.elts[0].value]}, {cst[init.value.elts[1].value]})\n')
    # ---------------- DispersiveTilt.shift, first-order branches of _dispersion and _trace
    dsft, ddis, dtra = _method(mod, 'DispersiveTilt', 'shift'), _method(mod, 'DispersiveTilt', '_dispersion'), _method(mod, 'DispersiveTilt', '_trace')
    denv = {'__one__': 'one', 'sqrt': True, 'wavelength': 'wavelength', 'xs': 'xs', 'ys': 'ys',
            'self.dispersion': ['dispersion_0', 'dispersion_1'], 'self.trace': ['trace_0', 'trace_1']}
    b1 = _one([n for n in ddis.body if isinstance(n, ast.If)], '_dispersion: order branch')
    if ast.unparse(b1.test) != 'self._dispersion_order == 1' or len(b1.body) != 1 or not isinstance(b1.body[0], ast.Return): raise Refuse('_dispersion: first-order branch changed')
    dist = _rx(b1.body[0].value, denv)
    b2 = _one([n for n in dtra.body if isinstance(n, ast.If)], '_trace: order branch')
    if ast.unparse(b2.test) != 'self._trace_order == 1' or len(b2.body) != 1 or ast.unparse(b2.body[0].targets[0]) != 'x': raise Refuse('_trace: first-order branch changed')
    tenv = dict(denv); tenv['dist'] = 'dist'
    tenv['x'] = _rx(b2.body[0].value, tenv)
    rest = [n for n in dtra.body if not isinstance(n, ast.If) and not (isinstance(n, ast.Expr) and isinstance(n.value, ast.Constant))]
    if len(rest) != 2 or ast.unparse(rest[0].targets[0]) != 'y' or ast.unparse(rest[1]) not in ('return (x, y)', 'return x, y'): raise Refuse('_trace: tail changed')
    tenv['y'] = _rx(rest[0].value, {**tenv, 'x': 'x'})
    sb = [n for n in dsft.body if not (isinstance(n, ast.Expr) and isinstance(n.value, ast.Constant))]
    want = ['dist = self._dispersion(wavelength)', ('x, y = self._trace(dist)', '(x, y) = self._trace(dist)'), 'x += xs', 'y += ys', ('return (x, y)', 'return x, y')]
    got = [ast.unparse(n) for n in sb]
    if len(got) != 5 or any((g not in w) if isinstance(w, tuple) else (g != w) for g, w in zip(got, want)): raise Refuse('DispersiveTilt.shift: body changed: ' + ' | '.join(got))
    out.append(f'/-- translated from `plane.py:DispersiveTilt.shift` (line {dsft.lineno}) with the first-order branches of `_dispersion` (line {ddis.lineno})\n'
               f'and `_trace` (line {dtra.lineno}); `sqrt` = `np.sqrt` -/\n'
               f'def dispersiveShift1 {RC} (sqrt : R → R) (one trace_0 trace_1 dispersion_0 dispersion_1 wavelength xs ys : R) : R × R :=\n'
               f'  let dist := {dist}\n  let x := {tenv["x"]}\n  let y := {tenv["y"]}\n  ((x + xs), (y + ys))\n')
    # ---------------- higher-order branches: the residuals the two scipy.optimize.leastsq calls drive to zero, and the shared tail
    def single_return(fn, what):
        body = [n for n in fn.body if not (isinstance(n, ast.Expr) and isinstance(n.value, ast.Constant))]
        if len(body) != 1 or not isinstance(body[0], ast.Return): raise Refuse(f'{what}: body is not a single return')
        return body[0].value
    if len(b1.orelse) != 1 or ast.unparse(b1.orelse[0]) != 'return scipy.optimize.leastsq(self._dist_cost_func, x0=0, args=(wavelength,))[0]':
        raise Refuse('_dispersion: higher-order branch is no longer leastsq(self._dist_cost_func, x0=0, args=(wavelength,))[0]')
    if len(b2.orelse) != 1 or ast.unparse(b2.orelse[0]) != 'x = scipy.optimize.leastsq(self._trace_cost_func, x0=0, args=(dist,))[0]':
        raise Refuse('_trace: higher-order branch is no longer x = leastsq(self._trace_cost_func, x0=0, args=(dist,))[0]')
    dcf, tcf, tdf = (_method(mod, 'DispersiveTilt', n_) for n_ in ('_dist_cost_func', '_trace_cost_func', '_trace_dist_func'))
    dwf = _method(mod, 'DispersiveTilt', '_dispersion_wavelength_func')
    al = _method(mod, 'DispersiveTilt', '_arc_len')
    if ast.unparse(single_return(al, '_arc_len')) != 'scipy.integrate.quad(dist_func, a, b)[0]' or [a.arg for a in al.args.args] != ['dist_func', 'a', 'b']:
        raise Refuse('_arc_len is no longer scipy.integrate.quad(dist_func, a, b)[0]')
    if [a.arg for a in dcf.args.args] != ['self', 'x', 'wavelength'] or [a.arg for a in tcf.args.args] != ['self', 'x', 'dist'] or [a.arg for a in tdf.args.args] != ['self', 'x']:
        raise Refuse('DispersiveTilt cost functions: parameters changed')
    henv = {'__one__': 'one', '__zero__': 'zero', 'sqrt': True, 'x': 'x', 'wavelength': 'wavelength', 'dist': 'dist',
            'self.dispersion': _L('dispersion'), 'self.trace': _L('trace'), '__inline__': {'self._dispersion_wavelength_func': dwf}}
    PV = '(polyval : List R → R → R)'
    out.append(f'/-- translated from `plane.py:DispersiveTilt._dist_cost_func` (line {dcf.lineno}, with `_dispersion_wavelength_func` inlined): the residual whose\n'
               f'root `scipy.optimize.leastsq(…, x0=0)` returns as `dist` for a dispersion polynomial of order > 1 -/\n'
               f'def dispDistResidual {RC} {PV} (dispersion : List R) (x wavelength : R) : R :=\n  {_rx(single_return(dcf, "_dist_cost_func"), henv)}\n')
    out.append(f'/-- translated from `plane.py:DispersiveTilt._trace_dist_func` (line {tdf.lineno}): the arc-length integrand of the trace polynomial -/\n'
               f'def traceDistIntegrand {RC} (sqrt : R → R) {PV} (polyder : List R → List R) (one : R) (trace : List R) (x : R) : R :=\n'
               f'  {_rx(single_return(tdf, "_trace_dist_func"), henv)}\n')
    out.append(f'/-- translated from `plane.py:DispersiveTilt._trace_cost_func` (line {tcf.lineno}): the residual whose root `leastsq(…, x0=0)` returns as `x` for a\n'
               f'trace polynomial of order > 1; `arcLen f a b` = `scipy.integrate.quad(f, a, b)[0]`, `integrand` = `_trace_dist_func` -/\n'
               f'def traceDistResidual {RC} (arcLen : (R → R) → R → R → R) (integrand : R → R) (zero x dist : R) : R :=\n'
               f'  {_rx(single_return(tcf, "_trace_cost_func"), {**henv, "arcLen": "self._trace_dist_func"})}\n')
    out.append(f'/-- translated from `plane.py:DispersiveTilt._trace` (line {rest[0].lineno}) and `shift`: the tail shared by all orders — `y = np.polyval(trace, x)`,\n'
               f'then the incoming shift is added -/\n'
               f'def dispersiveTail {RC} {PV} (trace : List R) (x xs ys : R) : R × R :=\n  let y := {_rx(rest[0].value, henv)}\n  ((x + xs), (y + ys))\n')
    # ---------------- how tilt lists are built: Wavefront.__init__, Field.__mul__, TiltInterface.multiply (list expressions)
    wmod = ast.parse(open(os.path.join(repo, 'lentil/wavefront.py')).read())
    def lx(e, env):
        """Python list expression -> Lean list expression: names, `a + b`, `[x, …]`, `Tilt(x=…, y=…)` via `mkTilt`"""
        if isinstance(e, ast.Name) or isinstance(e, ast.Attribute):
            k = ast.unparse(e)
            if k not in env: raise Refuse('list expression: unknown ' + k)
            return env[k]
        if isinstance(e, ast.BinOp) and isinstance(e.op, ast.Add): return f'({lx(e.left, env)} ++ {lx(e.right, env)})'
        if isinstance(e, ast.List): return '[' + ', '.join(lx(x, env) for x in e.elts) + ']'
        if isinstance(e, ast.Call) and ast.unparse(e.func) == 'Tilt' and not e.args and [k.arg for k in e.keywords] == ['x', 'y']:
            return f'(mkTilt {_rx(e.keywords[0].value, env)} {_rx(e.keywords[1].value, env)})'
        raise Refuse('list expression ' + ast.unparse(e)[:60])
    wi = _method(wmod, 'Wavefront', '__init__')
    wt = _one([n for n in ast.walk(wi) if isinstance(n, ast.Assign) and ast.unparse(n.targets[0]) == 'tilt'], 'Wavefront.__init__: tilt = [...]')
    guard = _one([n for n in ast.walk(wi) if isinstance(n, ast.If) and ast.unparse(n.test) == 'tilt is not None'], 'Wavefront.__init__: `if tilt is not None`')
    if wt not in guard.body: raise Refuse('Wavefront.__init__: the Tilt wrapping is no longer under `if tilt is not None`')
    fcall = _one([n for n in ast.walk(wi) if isinstance(n, ast.Call) and ast.unparse(n.func) == 'Field'], 'Wavefront.__init__: Field(...)')
    if ast.unparse({k.arg: k.value for k in fcall.keywords}.get('tilt', ast.Constant(None))) != 'tilt': raise Refuse('Wavefront.__init__: the initial Field no longer gets tilt=tilt')
    out.append(f'/-- translated from `wavefront.py:Wavefront.__init__` (line {wt.lineno}): the tilt list of the initial Field for `Wavefront(tilt=(tilt_0, tilt_1))` -/\n'
               f'def wavefrontInitTilt {{R T : Type}} (mkTilt : R → R → T) (tilt_0 tilt_1 : R) : List T :=\n  {lx(wt.value, {"tilt": ["tilt_0", "tilt_1"], "__one__": "one"})}\n')
    fm = _method(fmod, 'Field', '__mul__')
    ft_ = _one([n for n in ast.walk(fm) if isinstance(n, ast.Assign) and ast.unparse(n.targets[0]) == 'tilt'], 'Field.__mul__: tilt = …')
    ret = _one([n for n in ast.walk(fm) if isinstance(n, ast.Return)], 'Field.__mul__: return')
    if ast.unparse({k.arg: k.value for k in ret.value.keywords}.get('tilt', ast.Constant(None))) != 'tilt': raise Refuse('Field.__mul__: the product no longer gets tilt=tilt')
    out.append(f'/-- translated from `field.py:Field.__mul__` (line {ft_.lineno}): the tilt list of a product of two Fields -/\n'
               f'def fieldMulTilt {{T : Type}} (self_tilt other_tilt : List T) : List T :=\n  {lx(ft_.value, {"self.tilt": "self_tilt", "other.tilt": "other_tilt"})}\n')
    tm = _method(mod, 'TiltInterface', 'multiply')
    tb = [x for x in tm.body if not (isinstance(x, ast.Expr) and isinstance(x.value, ast.Constant))]
    if not (len(tb) == 3 and ast.unparse(tb[0]) == 'wavefront = super().multiply(wavefront)' and isinstance(tb[1], ast.For)
            and ast.unparse(tb[1].target) == 'field' and ast.unparse(tb[1].iter) == 'wavefront.data' and len(tb[1].body) == 1
            and ast.unparse(tb[2]) == 'return wavefront'):
        raise Refuse('TiltInterface.multiply: structure changed')
    ap = tb[1].body[0].value
    if not (isinstance(ap, ast.Call) and ast.unparse(ap.func) == 'field.tilt.append' and len(ap.args) == 1): raise Refuse('TiltInterface.multiply: no field.tilt.append(…)')
    out.append(f'/-- translated from `plane.py:TiltInterface.multiply` (line {tb[1].lineno}): every field of the product gets the element appended -/\n'
               f'def tiltInterfaceAppend {{T : Type}} (field_tilt : List T) (self : T) : List T :=\n  (field_tilt ++ [{lx(ap.args[0], {"self": "self"})}])\n')
    return '\n'.join(out), ['ptt_vector / fit_tilt / multiply / Tilt / Field.shift wiring; lstsq, einsum, reshape guarded textually']

def _guarded(fn):
    """any structural surprise while walking the source (missing attribute, index, key) is a refusal of the translator"""
    def wrapped(repo):
        try:
            return fn(repo)
        except Refuse:
            raise
        except (AttributeError, IndexError, KeyError, TypeError, ValueError) as e:
            raise Refuse(f'source structure changed ({type(e).__name__}: {e})')
    return wrapped

MODULES = [
    {'name': 'TiltFit', 'src': 'lentil/plane.py', 'generator': _guarded(generate), 'props': ['C04']},
]
