"""Translator spec for C02/C09: integer window logic of lentil/propagate.py -> lean/LentilVerif/Gen/Window.lean.

  * `_mask_shape`, `_mask_shift`  (the call `lentil.boundary(x, threshold)` is a parameter: the bounding rows/cols)
  * the per-field window block of `propagate_dft` (from `prop_extent = ...` to `prop_shift = ...`): `dftWindow`
    returns `none` when the output extent and the propagation extent do not intersect, else
    `some (intersect_shape, intersect_shift, prop_shift)`.

The block calls functions of lentil/extent.py; those are *not* re-translated here: the generated text calls the
definitions of Gen/Extent.lean (signatures/return shapes are recomputed from extent.py by the same translator, so a
change of arity or shape there refuses here).  `intersection_shape` returns `()`-or-pair (an `Option` in Lean); inside
the `if intersect(...)` guard the code uses it as a pair, which is translated as `.getD (0, 0)` and recorded in the
notes (theorem `C06.intersection_shape_spec` shows the `none` branch is unreachable under the guard)."""
import ast, os
from py2lean import FnTranslator, Refuse, V, S, O, B, lean_ty, lean_val, camel
import gen_specs

class _Tr(FnTranslator):
    """FnTranslator that (a) resolves `lentil.extent.f(...)` against the extent spec and (b) unwraps an optional pair
    that is used as a pair (only `intersection_shape`)."""
    def rebuild(self, call, ret):
        if isinstance(ret, O) and ret.inner == '(Int × Int)':
            self.specialised.append('intersection_shape(...) used as a pair: Option.getD (0, 0)')
            return V([S(f'({call}.getD ((0 : Int), (0 : Int))).1'), S(f'({call}.getD ((0 : Int), (0 : Int))).2')])
        return super().rebuild(call, ret)

def _extent_rets(repo):
    """return shapes of the extent.py functions (translated for their shapes only)"""
    path = os.path.join(repo, 'lentil/extent.py')
    mod = ast.parse(open(path).read())
    fns = {n.name: n for n in ast.walk(mod) if isinstance(n, ast.FunctionDef)}
    rets = {}
    for name, sig in gen_specs.EXTENT.items():
        if name not in fns: raise Refuse(f'extent.py: {name} not found')
        t = FnTranslator(None, fns[name], sig, gen_specs.EXTENT, rets)
        _, _, ret = t.translate()
        rets[name] = ret
    return rets

def _window_block(tr, stmts):
    """the body of `for field in data:` of propagate_dft from `prop_extent = ...` to `prop_shift = ...`"""
    loops = [s for s in stmts if isinstance(s, ast.For) and ast.unparse(s.target) == 'field']
    if len(loops) != 1: raise Refuse('propagate_dft: field loop not found')
    body = list(loops[0].body)
    start = [i for i, s in enumerate(body) if ast.unparse(s).startswith('prop_extent =')]
    if len(start) != 1: raise Refuse('propagate_dft: prop_extent assignment not found')
    tail = body[start[0]:]
    if len(tail) != 2 or not isinstance(tail[1], ast.If) or tail[1].orelse:
        raise Refuse('propagate_dft: expected `prop_extent = ...; if intersect(...): ...` at the end of the field loop')
    guard = tail[1]
    inner = []
    seen = False
    for s in guard.body:
        inner.append(s)
        if ast.unparse(s).startswith('prop_shift ='): seen = True; break
    if not seen: raise Refuse('propagate_dft: prop_shift assignment not found')
    # everything after prop_shift must be the alpha / dft2 / append statements (hand-modelled in Model/Propagate.lean)
    rest = [ast.unparse(s) for s in guard.body[len(inner):]]
    want = ['alpha = _dft_alpha(', 'data = lentil.fourier.dft2(', 'out.data.append(Field(']
    if len(rest) != 3 or not all(r.startswith(w) for r, w in zip(rest, want)):
        raise Refuse('propagate_dft: statements after prop_shift changed: ' + ' | '.join(r[:40] for r in rest))
    call = ast.unparse(guard.body[len(inner) + 1])
    for frag in ('f=field.data', 'alpha=alpha', 'shape=intersect_shape', 'shift=prop_shift + subpx_shift',
                 'offset=field.offset', 'unitary=True'):
        if frag not in call: raise Refuse(f'propagate_dft: dft2 call no longer has `{frag}`')
    app = ast.unparse(guard.body[len(inner) + 2])
    if 'offset=intersect_shift' not in app or 'data=data' not in app:
        raise Refuse('propagate_dft: output Field no longer built from (data, intersect_shift)')
    ret_some = ast.parse('return (intersect_shape, intersect_shift, prop_shift)').body[0]
    ret_none = ast.parse('return ()').body[0]
    new_if = ast.If(test=guard.test, body=inner + [ret_some], orelse=[ret_none])
    return [tail[0], new_if], None

SIGS = {
    '_mask_shape': {'params': [('b', 'ext')], 'call_as': {'lentil.boundary(x, threshold)': 'b'}},
    '_mask_shift': {'params': [('x', ('attr', {'shape': 'pair'})), ('b', 'ext')], 'call_as': {'lentil.boundary(x, threshold)': 'b'}},
    'propagate_dft': {'params': [('out_extent', 'ext'), ('prop_shape_out', 'pair'), ('fix_shift', 'pair')],
                      'block': _window_block, 'lean_name': 'dftWindow'},
}

def generate(repo):
    path = os.path.join(repo, 'lentil/propagate.py')
    mod = ast.parse(open(path).read())
    fns = {n.name: n for n in ast.walk(mod) if isinstance(n, ast.FunctionDef)}
    rets = _extent_rets(repo)
    all_sigs = dict(gen_specs.EXTENT); all_sigs.update(SIGS)
    out, notes = [], []
    for name, sig in SIGS.items():
        if name not in fns: raise Refuse(f'propagate.py: function {name} not found')
        t = _Tr(None, fns[name], sig, all_sigs, rets)
        try:
            lname, text, ret = t.translate()
        except Refuse as e:
            raise Refuse(f'propagate.py:{name}: {e}')
        rets[name] = ret
        out.append(f'/-- translated from `propagate.py:{name}` (line {fns[name].lineno}) -/\n' + text)
        if t.specialised or t.folded:
            notes.append(f'{name}: specialised {sorted(set(t.specialised))}, statically folded {t.folded}')
    return '\n'.join(out), notes

MODULES = [
    {'name': 'Window', 'src': 'lentil/propagate.py', 'generator': generate, 'props': ['C02', 'C04', 'C09'],
     'imports': ['LentilVerif.Gen.Extent']},
]
