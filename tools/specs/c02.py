"""Translator spec for C02/C09: integer window logic of lentil/propagate.py -> lean/LentilVerif/Gen/Window.lean.

  * `_mask_shape`, `_mask_shift`  (the call `lentil.boundary(x, threshold)` is a parameter: the bounding rows/cols)
  * the per-field window block of `propagate_dft` (from `prop_extent = ...` to `prop_shift = ...`): `dftWindow`
    returns `none` when the output extent and the propagation extent do not intersect, else
    `some (intersect_shape, intersect_shift, prop_shift)`.

The block calls functions of lentil/extent.py; those are *not* re-translated here: the generated text calls the
definitions of Gen/Extent.lean (signatures/return shapes are recomputed from extent.py by the same translator, so a
change of arity or shape there refuses here).  `intersection_shape` returns `()`-or-pair (an `Option` in Lean); inside
the `if intersect(...)` guard the code uses it as a pair, which is translated as `.getD (0, 0)` and recorded in the
notes (theorem `C06.intersection_shape_spec` shows the `none` branch is unreachable under the guard)."""
import ast, os
from py2lean import FnTranslator, Refuse, V, S, O, B, lean_ty, lean_val, camel
import gen_specs

class _Tr(FnTranslator):
    """FnTranslator that (a) resolves `lentil.extent.f(...)` against the extent spec and (b) unwraps an optional pair
    that is used as a pair (only `intersection_shape`)."""
    def rebuild(self, call, ret):
        if isinstance(ret, O) and ret.inner == '(Int × Int)':
            self.specialised.append('intersection_shape(...) used as a pair: Option.getD (0, 0)')
            return V([S(f'({call}.getD ((0 : Int), (0 : Int))).1'), S(f'({call}.getD ((0 : Int), (0 : Int))).2')])
        return super().rebuild(call, ret)

def _extent_rets(repo):
    """return shapes of the extent.py functions (translated for their shapes only)"""
    path = os.path.join(repo, 'lentil/extent.py')
    mod = ast.parse(open(path).read())
    fns = {n.name: n for n in ast.walk(mod) if isinstance(n, ast.FunctionDef)}
    rets = {}
    for name, sig in gen_specs.EXTENT.items():
        if name not in fns: raise Refuse(f'extent.py: {name} not found')
        t = FnTranslator(None, fns[name], sig, gen_specs.EXTENT, rets)
        _, _, ret = t.translate()
        rets[name] = ret
    return rets

def _window_block(tr, stmts):
    """the body of `for field in data:` of propagate_dft from `prop_extent = ...` to `prop_shift = ...`"""
    loops = [s for s in stmts if isinstance(s, ast.For) and ast.unparse(s.target) == 'field']
    if len(loops) != 1: raise Refuse('propagate_dft: field loop not found')
    body = list(loops[0].body)
    start = [i for i, s in enumerate(body) if ast.unparse(s).startswith('prop_extent =')]
    if len(start) != 1: raise Refuse('propagate_dft: prop_extent assignment not found')
    tail = body[start[0]:]
    if len(tail) != 2 or not isinstance(tail[1], ast.If) or tail[1].orelse:
        raise Refuse('propagate_dft: expected `prop_extent = ...; if intersect(...): ...` at the end of the field loop')
    guard = tail[1]
    inner = []
    seen = False
    for s in guard.body:
        inner.append(s)
        if ast.unparse(s).startswith('prop_shift ='): seen = True; break
    if not seen: raise Refuse('propagate_dft: prop_shift assignment not found')
    # everything after prop_shift must be the alpha / dft2 / append statements (hand-modelled in Model/Propagate.lean)
    rest = [ast.unparse(s) for s in guard.body[len(inner):]]
    want = ['alpha = _dft_alpha(', 'data = lentil.fourier.dft2(', 'out.data.append(Field(']
    if len(rest) != 3 or not all(r.startswith(w) for r, w in zip(rest, want)):
        raise Refuse('propagate_dft: statements after prop_shift changed: ' + ' | '.join(r[:40] for r in rest))
    # the arguments of the dft2 call and of Field(...) are translated into Gen/PropagateMeta.lean (dftCall*, dftFieldOffset)
    ret_some = ast.parse('return (intersect_shape, intersect_shift, prop_shift)').body[0]
    ret_none = ast.parse('return ()').body[0]
    new_if = ast.If(test=guard.test, body=inner + [ret_some], orelse=[ret_none])
    return [tail[0], new_if], None

SIGS = {
    '_mask_shape': {'params': [('b', 'ext')], 'call_as': {'lentil.boundary(x, threshold)': 'b'}},
    '_mask_shift': {'params': [('x', ('attr', {'shape': 'pair'})), ('b', 'ext')], 'call_as': {'lentil.boundary(x, threshold)': 'b'}},
    'propagate_dft': {'params': [('out_extent', 'ext'), ('prop_shape_out', 'pair'), ('fix_shift', 'pair')],
                      'block': _window_block, 'lean_name': 'dftWindow'},
}

def generate(repo):
    path = os.path.join(repo, 'lentil/propagate.py')
    mod = ast.parse(open(path).read())
    fns = {n.name: n for n in ast.walk(mod) if isinstance(n, ast.FunctionDef)}
    rets = _extent_rets(repo)
    all_sigs = dict(gen_specs.EXTENT); all_sigs.update(SIGS)
    out, notes = [], []
    for name, sig in SIGS.items():
        if name not in fns: raise Refuse(f'propagate.py: function {name} not found')
        t = _Tr(None, fns[name], sig, all_sigs, rets)
        try:
            lname, text, ret = t.translate()
        except Refuse as e:
            raise Refuse(f'propagate.py:{name}: {e}')
        rets[name] = ret
        out.append(f'/-- translated from `propagate.py:{name}` (line {fns[name].lineno}) -/\n' + text)
        if t.specialised or t.folded:
            notes.append(f'{name}: specialised {sorted(set(t.specialised))}, statically folded {t.folded}')
    return '\n'.join(out), notes

# ---------------------------------------------------------------------------------------------------------------
# float-valued wiring of propagate_dft / _fft_shape: `_dft_alpha`, its two call sites, shape*oversample, and the metadata
# handed to the output wavefront.  A small expression translator over an abstract scalar type `R` (only + - * / on names,
# constant subscripts of 2-vectors, attributes of `wavefront`, tuples; element-wise broadcasting of a 2-vector with a
# scalar); anything else is refused.
def _rx(e, env):
    """-> Lean string (scalar) or [str, str] (2-vector)"""
    if isinstance(e, ast.Name):
        if e.id not in env: raise Refuse(f'unknown name {e.id}')
        return env[e.id]
    if isinstance(e, ast.Attribute):
        k = ast.unparse(e)
        if k not in env: raise Refuse(f'unknown attribute {k}')
        return env[k]
    if isinstance(e, ast.Subscript):
        b = _rx(e.value, env)
        if not (isinstance(b, list) and isinstance(e.slice, ast.Constant) and e.slice.value in (0, 1)): raise Refuse('subscript ' + ast.unparse(e))
        return b[e.slice.value]
    if isinstance(e, ast.Constant) and isinstance(e.value, int) and not isinstance(e.value, bool) and env.get('__int__'):
        return f'({e.value} : Int)'
    if isinstance(e, ast.Tuple):
        if len(e.elts) != 2: raise Refuse('only pairs')
        return [_rx(x, env) for x in e.elts]
    if isinstance(e, ast.BinOp):
        ops = {ast.Add: '+', ast.Sub: '-', ast.Mult: '*', ast.Div: '/'}
        if type(e.op) not in ops: raise Refuse('operator ' + type(e.op).__name__)
        a, b, o = _rx(e.left, env), _rx(e.right, env), ops[type(e.op)]
        if isinstance(a, list) or isinstance(b, list):
            a2 = a if isinstance(a, list) else [a, a]; b2 = b if isinstance(b, list) else [b, b]
            return [f'({x} {o} {y})' for x, y in zip(a2, b2)]
        return f'({a} {o} {b})'
    if isinstance(e, ast.Call) and ast.unparse(e.func) == 'np.broadcast_to' and len(e.args) == 2 and ast.unparse(e.args[1]) == '(2,)':
        v = _rx(e.args[0], env)
        return v if isinstance(v, list) else [v, v]
    raise Refuse('expression ' + ast.unparse(e)[:60])

def _pair(v):
    if not isinstance(v, list): raise Refuse('expected a pair')
    return f'({v[0]}, {v[1]})'

def _assign(fn, name):
    """the unique top-level-or-nested `name = ...` assignment of a function"""
    hits = [n for n in ast.walk(fn) if isinstance(n, ast.Assign) and len(n.targets) == 1 and ast.unparse(n.targets[0]) == name]
    if len(hits) != 1: raise Refuse(f'{fn.name}: expected exactly one assignment to {name}, found {len(hits)}')
    return hits[0].value

def _call_args(call, callee):
    """arguments of a call in the callee's parameter order (positional and keyword)"""
    params = [a.arg for a in callee.args.args]
    got = {}
    for i, a in enumerate(call.args): got[params[i]] = a
    for k in call.keywords:
        if k.arg in got or k.arg not in params: raise Refuse('call arguments of ' + ast.unparse(call)[:60])
        got[k.arg] = k.value
    if set(got) != set(params): raise Refuse('call arity of ' + ast.unparse(call)[:60])
    return [got[p] for p in params]

def generate_meta(repo):
    path = os.path.join(repo, 'lentil/propagate.py')
    mod = ast.parse(open(path).read())
    fns = {n.name: n for n in ast.walk(mod) if isinstance(n, ast.FunctionDef)}
    for f in ('_dft_alpha', 'propagate_dft', '_fft_shape', 'propagate_fft'):
        if f not in fns: raise Refuse(f'propagate.py: {f} not found')
    out = []
    R = '{R : Type} [Add R] [Sub R] [Mul R] [Div R]'
    # ---- _dft_alpha
    fa = fns['_dft_alpha']
    params = [a.arg for a in fa.args.args]
    if params != ['dx', 'du', 'wavelength', 'z', 'oversample']: raise Refuse(f'_dft_alpha: parameters changed: {params}')
    body = [s for s in fa.body if not (isinstance(s, ast.Expr) and isinstance(s.value, ast.Constant))]
    if len(body) != 1 or not isinstance(body[0], ast.Return): raise Refuse('_dft_alpha: body is not a single return')
    env = {'dx': ['dx_0', 'dx_1'], 'du': ['du_0', 'du_1'], 'wavelength': 'wavelength', 'z': 'z', 'oversample': 'oversample'}
    out.append(f'/-- translated from `propagate.py:_dft_alpha` (line {fa.lineno}) -/\n'
               f'def dftAlpha {R} (dx_0 dx_1 du_0 du_1 wavelength z oversample : R) : R × R :=\n  {_pair(_rx(body[0].value, env))}\n')
    def alpha_call(fn, env, lname, doc, sig):
        call = _assign(fn, 'alpha')
        if not (isinstance(call, ast.Call) and ast.unparse(call.func) == '_dft_alpha'): raise Refuse(f'{fn.name}: alpha is not a _dft_alpha call')
        args = [_rx(a, env) for a in _call_args(call, fa)]
        flat = []
        for a in args: flat += a if isinstance(a, list) else [a]
        out.append(f'/-- translated from `propagate.py:{fn.name}` (line {call.lineno}): {doc} -/\n'
                   f'def {lname} {R} {sig} : R × R :=\n  dftAlpha {" ".join(flat)}\n')
    # ---- call site in propagate_dft (dx, du, z are locals)
    fd = fns['propagate_dft']
    envd = {'wavefront.pixelscale': ['wavefront_pixelscale_0', 'wavefront_pixelscale_1'], 'wavefront.wavelength': 'wavefront_wavelength',
            'wavefront.focal_length': 'wavefront_focal_length', 'pixelscale': ['pixelscale_0', 'pixelscale_1'], 'oversample': 'oversample'}
    for loc in ('dx', 'du', 'z'): envd[loc] = _rx(_assign(fd, loc), envd)
    alpha_call(fd, envd, 'dftAlphaCall', 'the `alpha` handed to dft2, in terms of the wavefront attributes and the call arguments',
               '(wavefront_pixelscale_0 wavefront_pixelscale_1 pixelscale_0 pixelscale_1 wavefront_wavelength wavefront_focal_length oversample : R)')
    # ---- metadata of the output wavefront of propagate_dft
    emp = _assign(fd, 'out')
    if not (isinstance(emp, ast.Call) and ast.unparse(emp.func) == 'Wavefront.empty' and not emp.args): raise Refuse('propagate_dft: out is not Wavefront.empty(...)')
    kw = {k.arg: k.value for k in emp.keywords}
    if set(kw) != {'wavelength', 'pixelscale', 'focal_length', 'shape', 'ptype'}: raise Refuse(f'propagate_dft: Wavefront.empty keywords changed: {sorted(kw)}')
    if ast.unparse(kw['shape']) != 'shape_out' or ast.unparse(kw['ptype']) != 'ptype_out': raise Refuse('propagate_dft: shape/ptype of the output changed')
    if ast.unparse(_assign(fd, 'ptype_out')) != "_propagate_ptype(wavefront.ptype, method='fraunhofer')": raise Refuse('propagate_dft: ptype_out changed')
    out.append(f'/-- translated from `propagate.py:propagate_dft` (line {emp.lineno}): (wavelength, pixelscale, focal_length) of the output wavefront;\n'
               f'its shape is `dftShapeOut`, its ptype `_propagate_ptype(wavefront.ptype)` (Gen.codePropagate, C08) -/\n'
               f'def dftOutMeta {R} (wavefront_pixelscale_0 wavefront_pixelscale_1 pixelscale_0 pixelscale_1 wavefront_wavelength wavefront_focal_length oversample : R) : R × (R × R) × R :=\n'
               f'  ({_rx(kw["wavelength"], envd)}, {_pair(_rx(kw["pixelscale"], envd))}, {_rx(kw["focal_length"], envd)})\n')
    # ---- the per-field shift: which wavefront attributes / call arguments feed Field.shift, and its split into integer and sub-pixel part
    loops = [s for s in fd.body if isinstance(s, ast.For) and ast.unparse(s.target) == 'field']
    if len(loops) != 1: raise Refuse('propagate_dft: field loop not found')
    lb = loops[0].body
    if len(lb) < 3 or [ast.unparse(s.targets[0]) if isinstance(s, ast.Assign) else None for s in lb[:3]] != ['shift', 'fix_shift', 'subpx_shift']:
        raise Refuse('propagate_dft: the field loop no longer starts with shift / fix_shift / subpx_shift')
    sc = lb[0].value
    if not (isinstance(sc, ast.Call) and ast.unparse(sc.func) == 'field.shift' and not sc.args): raise Refuse('propagate_dft: shift is not field.shift(keywords)')
    skw = {k.arg: ast.unparse(k.value) for k in sc.keywords}
    if set(skw) != {'z', 'wavelength', 'pixelscale', 'oversample', 'indexing'} or skw['indexing'] not in ("'ij'", "'xy'"): raise Refuse(f'propagate_dft: field.shift keywords changed: {skw}')
    senv = {'wavefront.focal_length': 'wavefront_focal_length', 'wavefront.wavelength': 'wavefront_wavelength', 'du': ['pixelscale_0', 'pixelscale_1'], 'z': envd['z'],
            'oversample': 'oversample', 'pixelscale': ['pixelscale_0', 'pixelscale_1']}
    sargs = {k.arg: _rx(k.value, senv) for k in sc.keywords if k.arg != 'indexing'}
    ij_ = 'true' if skw['indexing'] == "'ij'" else 'false'
    out.append(f'/-- translated from `propagate.py:propagate_dft` (line {sc.lineno}): the arguments `(z, wavelength, pixelscale, oversample)` of `field.shift(...)` in terms of the\n'
               f'wavefront attributes and call arguments, and whether `indexing` is `ij` (row, column) -/\n'
               f'def dftShiftArgs {{R : Type}} (wavefront_focal_length wavefront_wavelength pixelscale_0 pixelscale_1 oversample : R) : (R × R × (R × R) × R) × Bool :=\n'
               f'  (({sargs["z"]}, {sargs["wavelength"]}, {_pair(sargs["pixelscale"])}, {sargs["oversample"]}), {ij_})\n')
    fx = lb[1].value
    itbl = {'np.fix': 'fix', 'np.trunc': 'fix', 'np.floor': 'floor', 'np.round': 'round', 'np.rint': 'round', 'np.ceil': 'ceil'}
    if not (isinstance(fx, ast.Call) and ast.unparse(fx.func) in itbl and [ast.unparse(a) for a in fx.args] == ['shift'] and not fx.keywords):
        raise Refuse('propagate_dft: fix_shift is not an integer-valued rounding of shift: ' + ast.unparse(fx)[:60])
    fxn = itbl[ast.unparse(fx.func)]
    sub = [_rx(lb[2].value, {'shift': ['shift_0', 'shift_1'], 'fix_shift': [f'({fxn} shift_0)', f'({fxn} shift_1)']})][0]
    out.append(f'/-- translated from `propagate.py:propagate_dft` (line {lb[1].lineno}): `(fix_shift, subpx_shift)` from a field\'s `shift`; `fix` / `floor` / `round` / `ceil` =\n'
               f'`np.fix` (`np.trunc`) / `np.floor` / `np.round` / `np.ceil` as functions R → R -/\n'
               f'def dftShiftSplit {{R : Type}} [Add R] [Sub R] [Mul R] [Div R] (fix floor round ceil : R → R) (shift_0 shift_1 : R) : (R × R) × (R × R) :=\n'
               f'  ((({fxn} shift_0), ({fxn} shift_1)), {_pair(sub)})\n')
    # ---- order of the entry guards: the plane-type check (`ptype_out = _propagate_ptype(...)`, TypeError) and the mask-shape guard
    # (`raise ValueError` under `if mask is not None`) as positions among the top-level statements of propagate_dft
    top = [n for n in fd.body if not (isinstance(n, ast.Expr) and isinstance(n.value, ast.Constant))]
    ipt = [i for i, n in enumerate(top) if isinstance(n, ast.Assign) and ast.unparse(n.targets[0]) == 'ptype_out']
    img = [i for i, n in enumerate(top) if any(isinstance(x, ast.Raise) for x in ast.walk(n))]
    if len(ipt) != 1: raise Refuse('propagate_dft: ptype_out is not assigned exactly once at the top level of the function')
    if len(img) != 1 or not (isinstance(top[img[0]], ast.If) and ast.unparse(top[img[0]].test) == 'mask is not None'):
        raise Refuse('propagate_dft: expected exactly one top-level statement that can raise, the `if mask is not None:` block')
    out.append(f'/-- translated from `propagate.py:propagate_dft` (line {top[ipt[0]].lineno}): position of `ptype_out = _propagate_ptype(wavefront.ptype, …)` (raises TypeError\n'
               f'for a wavefront without plane type) among the top-level statements -/\ndef dftPtypeStmt : Int := {ipt[0]}\n')
    out.append(f'/-- translated from `propagate.py:propagate_dft` (line {top[img[0]].lineno}): position of the `if mask is not None:` block (mask-shape guard, ValueError; empty\n'
               f'support, IndexError) among the top-level statements; no other top-level statement raises -/\ndef dftMaskGuardStmt : Int := {img[0]}\n')
    # the per-Field pixelscale
    app = [n for n in ast.walk(fd) if isinstance(n, ast.Call) and ast.unparse(n.func) == 'Field']
    if len(app) != 1: raise Refuse('propagate_dft: expected one Field(...) construction')
    fkw = {k.arg: k.value for k in app[0].keywords}
    if set(fkw) != {'data', 'pixelscale', 'offset'}: raise Refuse('propagate_dft: Field(...) keywords changed')
    out.append(f'/-- translated from `propagate.py:propagate_dft` (line {app[0].lineno}): pixelscale attribute of each output Field -/\n'
               f'def dftFieldPixelscale {R} (pixelscale_0 pixelscale_1 oversample : R) : R × R :=\n  {_pair(_rx(fkw["pixelscale"], envd))}\n')
    # ---- the dft2 call and the output Field of the field loop: every argument is translated, none matched as text
    calls = [n for n in ast.walk(fd) if isinstance(n, ast.Call) and ast.unparse(n.func) == 'lentil.fourier.dft2']
    if len(calls) != 1 or calls[0].args: raise Refuse('propagate_dft: expected exactly one keyword-only lentil.fourier.dft2(...) call')
    dkw = {k.arg: k.value for k in calls[0].keywords}
    if set(dkw) != {'f', 'alpha', 'shape', 'shift', 'offset', 'unitary'}: raise Refuse(f'propagate_dft: dft2 keywords changed: {sorted(dkw)}')
    same = lambda node, src: ast.dump(node) == ast.dump(ast.parse(src, mode='eval').body)
    if not same(dkw['f'], 'field.data'): raise Refuse('propagate_dft: dft2 is no longer applied to field.data: ' + ast.unparse(dkw['f']))
    if not same(dkw['alpha'], 'alpha'): raise Refuse('propagate_dft: dft2 alpha argument changed: ' + ast.unparse(dkw['alpha']))
    if not same(dkw['unitary'], 'True'): raise Refuse('propagate_dft: dft2 is no longer called with unitary=True')
    holder = [n for n in ast.walk(fd) if isinstance(n, ast.Assign) and n.value is calls[0]]
    if len(holder) != 1 or ast.unparse(holder[0].targets[0]) != 'data': raise Refuse('propagate_dft: the dft2 result is no longer bound to `data`')
    ienv = {'intersect_shape': ['intersect_shape_0', 'intersect_shape_1'], 'intersect_shift': ['intersect_shift_0', 'intersect_shift_1'],
            'field.offset': ['field_offset_0', 'field_offset_1']}
    renv = {'prop_shift': ['prop_shift_0', 'prop_shift_1'], 'subpx_shift': ['subpx_shift_0', 'subpx_shift_1']}
    ipar = '(intersect_shape_0 intersect_shape_1 intersect_shift_0 intersect_shift_1 field_offset_0 field_offset_1 : Int)'
    out.append(f'/-- translated from `propagate.py:propagate_dft` (line {calls[0].lineno}): `shape=` of the dft2 call -/\n'
               f'def dftCallShape {ipar} : Int × Int :=\n  {_pair(_rx(dkw["shape"], ienv))}\n')
    out.append(f'/-- translated from `propagate.py:propagate_dft` (line {calls[0].lineno}): `offset=` of the dft2 call -/\n'
               f'def dftCallOffset {ipar} : Int × Int :=\n  {_pair(_rx(dkw["offset"], ienv))}\n')
    out.append(f'/-- translated from `propagate.py:propagate_dft` (line {calls[0].lineno}): `shift=` of the dft2 call (`prop_shift` is the integer\n'
               f'recentring shift of `Gen.dftWindow`, cast to the scalars) -/\n'
               f'def dftCallShift {{R : Type}} [Add R] [Sub R] [Mul R] (prop_shift_0 prop_shift_1 subpx_shift_0 subpx_shift_1 : R) : R × R :=\n  {_pair(_rx(dkw["shift"], renv))}\n')
    if not same(fkw['data'], 'data'): raise Refuse('propagate_dft: output Field is no longer built from the dft2 result')
    out.append(f'/-- translated from `propagate.py:propagate_dft` (line {app[0].lineno}): `offset=` of the output Field -/\n'
               f'def dftFieldOffset {ipar} : Int × Int :=\n  {_pair(_rx(fkw["offset"], ienv))}\n')
    # ---- shape_out, prop_shape_out (integers)
    for nm, src, ln in (('dftShapeOut', 'shape', 'shape_out'), ('dftPropShapeOut', 'prop_shape', 'prop_shape_out')):
        v = _rx(_assign(fd, ln), {src: [f'{src}_0', f'{src}_1'], 'oversample': 'oversample'})
        out.append(f'/-- translated from `propagate.py:propagate_dft`: `{ln} = {ast.unparse(_assign(fd, ln))}` -/\n'
                   f'def {nm} ({src}_0 {src}_1 oversample : Int) : Int × Int :=\n  {_pair(v)}\n')
    # ---- defaults of `shape` / `prop_shape` (None -> another pair, else np.broadcast_to(., (2,))) and the mask branch of out_extent
    out.append('/-- a `shape=` / `prop_shape=` argument as the caller writes it: `None`, one int, or a pair -/\n'
               'inductive ShapeArg where\n  | none\n  | scalar (n : Int)\n  | pair (a b : Int)\n\n'
               '/-- `x is None` -/\ndef ShapeArg.isNone : ShapeArg → Bool\n  | .none => true\n  | _ => false\n\n'
               '/-- NumPy contract of `np.broadcast_to(x, (2,))` for an int or a pair (never evaluated on `None`) -/\n'
               'def ShapeArg.bcast2 : ShapeArg → Int × Int\n  | .none => (0, 0)\n  | .scalar n => (n, n)\n  | .pair a b => (a, b)\n')
    for nm, var, denv, sig in (('dftShapeDefault', 'shape', {'wavefront.shape': ['wavefront_shape_0', 'wavefront_shape_1']}, 'wavefront_shape_0 wavefront_shape_1'),
                               ('dftPropShapeDefault', 'prop_shape', {'shape': ['shape_0', 'shape_1']}, 'shape_0 shape_1')):
        v = _assign(fd, var)
        if not isinstance(v, ast.IfExp): raise Refuse(f'propagate_dft: {var} default is no longer `a if {var} is None else b`')
        t = v.test
        if not (isinstance(t, ast.Compare) and len(t.ops) == 1 and isinstance(t.ops[0], (ast.Is, ast.IsNot)) and ast.unparse(t.left) == var
                and isinstance(t.comparators[0], ast.Constant) and t.comparators[0].value is None): raise Refuse(f'propagate_dft: {var} default test changed: ' + ast.unparse(t))
        dflt, given = (v.body, v.orelse) if isinstance(t.ops[0], ast.Is) else (v.orelse, v.body)
        if isinstance(dflt, ast.Call) and ast.unparse(dflt.func) == 'np.asarray' and len(dflt.args) == 1 and not dflt.keywords: dflt = dflt.args[0]
        if not (isinstance(given, ast.Call) and ast.unparse(given.func) == 'np.broadcast_to' and len(given.args) == 2 and ast.unparse(given.args[0]) == var
                and ast.unparse(given.args[1]) == '(2,)'): raise Refuse(f'propagate_dft: explicit {var} is no longer np.broadcast_to({var}, (2,)): ' + ast.unparse(given))
        out.append(f'/-- translated from `propagate.py:propagate_dft` (line {v.lineno}): `{var} = {ast.unparse(v)}` -/\n'
                   f'def {nm} ({sig} : Int) ({var} : ShapeArg) : Int × Int :=\n  if {var}.isNone then {_pair(_rx(dflt, denv))} else {var}.bcast2\n')
    branches = [n for n in fd.body if isinstance(n, ast.If) and ast.unparse(n.test) in ('mask is not None', 'mask is None')]
    if len(branches) != 1: raise Refuse('propagate_dft: the `if mask is not None` branch was not found')
    br = branches[0]
    with_mask, no_mask = (br.body, br.orelse) if ast.unparse(br.test) == 'mask is not None' else (br.orelse, br.body)
    srcs = [ast.unparse(x) for x in with_mask]
    if len(with_mask) != 5 or srcs[0] != 'mask = np.asarray(mask)' or not isinstance(with_mask[1], ast.If) or with_mask[1].orelse \
            or len(with_mask[1].body) != 1 or not isinstance(with_mask[1].body[0], ast.Raise) or not ast.unparse(with_mask[1].body[0]).startswith('raise ValueError('):
        raise Refuse('propagate_dft: mask branch changed: ' + ' | '.join(x[:40] for x in srcs))
    g = with_mask[1].test
    if not (isinstance(g, ast.Call) and ast.unparse(g.func) in ('np.all', 'np.any') and len(g.args) == 1 and isinstance(g.args[0], ast.Compare)
            and len(g.args[0].ops) == 1 and isinstance(g.args[0].ops[0], (ast.NotEq, ast.Eq))): raise Refuse('propagate_dft: mask shape guard changed: ' + ast.unparse(g))
    genv = {'mask.shape': ['mask_shape_0', 'mask_shape_1'], 'shape_out': ['shape_out_0', 'shape_out_1'], 'shape': ['shape_0', 'shape_1']}
    ga, gb = _rx(g.args[0].left, genv), _rx(g.args[0].comparators[0], genv)
    if not (isinstance(ga, list) and isinstance(gb, list)): raise Refuse('propagate_dft: mask shape guard does not compare two pairs')
    cmp_ = '!=' if isinstance(g.args[0].ops[0], ast.NotEq) else '=='
    join = '&&' if ast.unparse(g.func) == 'np.all' else '||'
    out.append(f'/-- translated from `propagate.py:propagate_dft` (line {g.lineno}): the guard `{ast.unparse(g)}` that raises ValueError -/\n'
               f'def dftMaskMismatch (mask_shape_0 mask_shape_1 shape_out_0 shape_out_1 : Int) : Bool :=\n'
               f'  ({ga[0]} {cmp_} {gb[0]}) {join} ({ga[1]} {cmp_} {gb[1]})\n')
    thr = []
    for k, fname in ((2, '_mask_shape'), (3, '_mask_shift')):
        a = with_mask[k]
        if not (isinstance(a, ast.Assign) and ast.unparse(a.targets[0]) == fname[1:] and isinstance(a.value, ast.Call) and ast.unparse(a.value.func) == fname):
            raise Refuse(f'propagate_dft: {fname[1:]} = {fname}(...) changed: ' + srcs[k][:60])
        args = _call_args(a.value, fns[fname])
        if ast.unparse(args[0]) != 'mask' or not (isinstance(args[1], ast.Constant) and isinstance(args[1].value, int)): raise Refuse(f'propagate_dft: arguments of {fname} changed: ' + srcs[k][:60])
        thr.append(args[1].value)
    if thr[0] != thr[1]: raise Refuse('propagate_dft: _mask_shape and _mask_shift are called with different thresholds')
    out.append(f'/-- translated from `propagate.py:propagate_dft` (line {with_mask[2].lineno}): the `threshold=` of `_mask_shape(mask, ..)`/`_mask_shift(mask, ..)` -/\n'
               f'def dftMaskThreshold : Int := {thr[0]}\n')
    ext = ast.parse(open(os.path.join(repo, 'lentil/extent.py')).read())
    aext = [n for n in ast.walk(ext) if isinstance(n, ast.FunctionDef) and n.name == 'array_extent']
    if len(aext) != 1: raise Refuse('extent.py: array_extent not found')
    def ext_args(stmt, env, what):
        if not (isinstance(stmt, ast.Assign) and ast.unparse(stmt.targets[0]) == 'out_extent' and isinstance(stmt.value, ast.Call)
                and ast.unparse(stmt.value.func) == 'lentil.extent.array_extent'): raise Refuse(f'propagate_dft: out_extent ({what}) is no longer an array_extent call')
        params = [q.arg for q in aext[0].args.args]
        if params[:2] != ['shape', 'shift']: raise Refuse('extent.py: array_extent parameters changed')
        got = dict(zip(params, stmt.value.args))
        for k in stmt.value.keywords:
            if k.arg in got or k.arg not in params: raise Refuse(f'propagate_dft: out_extent ({what}) call arguments')
            got[k.arg] = k.value
        if set(got) != {'shape', 'shift'}: raise Refuse(f'propagate_dft: out_extent ({what}) is no longer array_extent(shape, shift) without a parent shape')
        a = [_rx(got['shape'], env), _rx(got['shift'], env)]
        if not all(isinstance(x, list) for x in a): raise Refuse(f'propagate_dft: out_extent ({what}) arguments are not pairs')
        return f'(({a[0][0]}, {a[0][1]}), ({a[1][0]}, {a[1][1]}))'
    menv = {'mask_shape': ['mask_shape_0', 'mask_shape_1'], 'mask_shift': ['mask_shift_0', 'mask_shift_1'], 'shape_out': ['shape_out_0', 'shape_out_1'],
            'shape': ['shape_0', 'shape_1'], '__int__': True}
    out.append(f'/-- translated from `propagate.py:propagate_dft` (line {with_mask[4].lineno}): (shape, shift) handed to `array_extent` for `out_extent` when a mask is given -/\n'
               f'def dftOutExtentArgsMask (mask_shape_0 mask_shape_1 mask_shift_0 mask_shift_1 shape_out_0 shape_out_1 : Int) : (Int × Int) × (Int × Int) :=\n'
               f'  {ext_args(with_mask[4], menv, "mask")}\n')
    if len(no_mask) != 1: raise Refuse('propagate_dft: the no-mask branch changed')
    out.append(f'/-- translated from `propagate.py:propagate_dft` (line {no_mask[0].lineno}): (shape, shift) handed to `array_extent` for `out_extent` without a mask -/\n'
               f'def dftOutExtentArgsNoMask (shape_out_0 shape_out_1 : Int) : (Int × Int) × (Int × Int) :=\n'
               f'  {ext_args(no_mask[0], menv, "no mask")}\n')
    # ---- _fft_shape: alpha call (positional!), reported wavelength per axis
    ff = fns['_fft_shape']
    if [a.arg for a in ff.args.args] != ['dx', 'du', 'z', 'wavelength', 'oversample']: raise Refuse('_fft_shape: parameters changed')
    envf = {'dx': ['dx_0', 'dx_1'], 'du': ['du_0', 'du_1'], 'z': 'z', 'wavelength': 'wavelength', 'oversample': 'oversample',
            'fft_shape': ['fft_shape_0', 'fft_shape_1']}
    alpha_call(ff, envf, 'fftAlphaCall', 'the `alpha` whose reciprocal is rounded to the FFT grid (arguments as written at the call site)',
               '(dx_0 dx_1 du_0 du_1 z wavelength oversample : R)')
    # fft_shape: a composition of element-wise NumPy functions applied to `alpha`, ending in `.astype(int)`; translated over abstract
    # operations (which rounding, reciprocal or not) — the theorem C09.fft_shape_is_generated fixes it to round-half-even of 1/alpha
    def unary(e, arg, to_int):
        if isinstance(e, ast.Name) and e.id == 'alpha': return arg
        if isinstance(e, ast.Call) and len(e.args) == 1 and not e.keywords:
            f = ast.unparse(e.func)
            tbl = {'np.reciprocal': 'recip'}
            itbl = {'np.round': 'round', 'np.rint': 'round', 'np.floor': 'floor', 'np.ceil': 'ceil'}
            if f in tbl: return f'({tbl[f]} {unary(e.args[0], arg, False)})'
            if f in itbl and to_int: return f'({itbl[f]} {unary(e.args[0], arg, False)})'
        raise Refuse('_fft_shape: fft_shape expression ' + ast.unparse(e)[:60])
    fsx = _assign(ff, 'fft_shape')
    if not (isinstance(fsx, ast.Call) and isinstance(fsx.func, ast.Attribute) and fsx.func.attr == 'astype' and [ast.unparse(a) for a in fsx.args] == ['int'] and not fsx.keywords):
        raise Refuse('_fft_shape: fft_shape is no longer <expr>.astype(int)')
    out.append(f'/-- translated from `propagate.py:_fft_shape` (line {fsx.lineno}): `fft_shape` from `alpha`, per axis; `round` / `floor` / `ceil` = `np.round` (`np.rint`) /\n'
               f'`np.floor` / `np.ceil` followed by `.astype(int)`, `recip` = `np.reciprocal` -/\n'
               f'def fftShapeOfAlpha {{R : Type}} (round floor ceil : R → Int) (recip : R → R) (alpha_0 alpha_1 : R) : Int × Int :=\n'
               f'  ({unary(fsx.func.value, "alpha_0", True)}, {unary(fsx.func.value, "alpha_1", True)})\n')
    pw = _assign(ff, 'prop_wavelength')
    if not (isinstance(pw, ast.Call) and ast.unparse(pw.func) in ('np.min', 'np.max', 'np.mean') and len(pw.args) == 1 and not pw.keywords): raise Refuse('_fft_shape: prop_wavelength is not a reduction np.min/np.max/np.mean(...)')
    out.append(f'/-- translated from `propagate.py:_fft_shape` (line {pw.lineno}): how the two per-axis wavelengths (`fftWavelengths`) are reduced to the reported one -/\n'
               f'def fftWavelengthReduce {{R : Type}} (min max mean : R → R → R) (w_0 w_1 : R) : R :=\n  {ast.unparse(pw.func).split(".")[1]} w_0 w_1\n')
    out.append(f'/-- translated from `propagate.py:_fft_shape` (line {pw.lineno}): the per-axis wavelengths whose minimum is reported -/\n'
               f'def fftWavelengths {R} (fft_shape_0 fft_shape_1 dx_0 dx_1 du_0 du_1 z oversample : R) : R × R :=\n  {_pair(_rx(pw.args[0], envf))}\n')
    ret = [n for n in ff.body if isinstance(n, ast.Return)]
    if len(ret) != 1 or ast.unparse(ret[0].value) != '(fft_shape, prop_wavelength)': raise Refuse('_fft_shape: return value changed')
    # ---- propagate_fft: how _fft_shape is called and what the output wavefront gets
    fp = fns['propagate_fft']
    call = [n for n in ast.walk(fp) if isinstance(n, ast.Call) and ast.unparse(n.func) == '_fft_shape']
    if len(call) != 1: raise Refuse('propagate_fft: expected one _fft_shape call')
    a = [ast.unparse(x) for x in _call_args(call[0], ff)]
    if a != ['wavefront.pixelscale', 'pixelscale', 'wavefront.focal_length', 'wavefront.wavelength', 'oversample']:
        raise Refuse(f'propagate_fft: arguments of _fft_shape changed: {a}')
    emp = _assign(fp, 'out')
    kw = {k.arg: ast.unparse(k.value) for k in emp.keywords}
    if kw != {'wavelength': 'prop_wavelength', 'pixelscale': 'pixelscale / oversample', 'focal_length': 'wavefront.focal_length',
              'shape': 'shape_out', 'ptype': 'ptype_out'}:
        raise Refuse(f'propagate_fft: metadata of the output wavefront changed: {kw}')
    return '\n'.join(out), ['float wiring translated over an abstract scalar type R; np.round/np.min/np.reciprocal guarded textually']

def _guarded(fn):
    """any structural surprise while walking the source (missing attribute, index, key) is a refusal of the translator"""
    def wrapped(repo):
        try:
            return fn(repo)
        except Refuse:
            raise
        except (AttributeError, IndexError, KeyError, TypeError, ValueError) as e:
            raise Refuse(f'source structure changed ({type(e).__name__}: {e})')
    return wrapped

MODULES = [
    {'name': 'PropagateMeta', 'src': 'lentil/propagate.py', 'generator': _guarded(generate_meta), 'props': ['C02', 'C04', 'C09']},
    {'name': 'Window', 'src': 'lentil/propagate.py', 'generator': _guarded(generate), 'props': ['C02', 'C04', 'C09'],
     'imports': ['LentilVerif.Gen.Extent']},
]
