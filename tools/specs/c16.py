"""C16 — regenerated bookkeeping of lentil.detector.collect_charge_bayer and lentil.detector.adc (tie 1).

`Gen/DetectorIdx.lean` is written from the source on every run:
  * Bayer mosaic: the integer expressions `nrow`, `ncol`, the repeat counts handed to `np.tile` and the (factor, axis) pairs of the
    nested `np.repeat` calls are *translated* (names mapped to rows/cols/oversample/kernel sizes, `//` to Int division); the three
    colour channels must be built the same way.
  * adc: the gain-form dispatch (`gain.ndim` -> polynomial order source), the power-cube loop (range of `order`, slice index `d`,
    exponent), the einsum subscripts per `gain.ndim`, and the ordered digitisation steps with their key expressions (saturation
    `np.where`, `np.floor` argument, negative clamp, cast).
`Model/Detector.lean` builds `mosaic` from the generated repeat counts / axes, and `Props/C16.lean` proves `adc_matches_source`,
`power_cube_exponent`, `mosaic_*` about the generated definitions, so an edit of these source lines changes a definition a theorem
depends on. Anything outside the understood forms is refused."""
import ast, os
from py2lean import Refuse

def _robust(gen, what):
    """a source shape the spec did not anticipate is a readable refusal (tie broken), never a crash"""
    def wrapped(repo):
        try:
            return gen(repo)
        except Refuse:
            raise
        except (AttributeError, IndexError, KeyError, TypeError, ValueError, AssertionError) as e:
            import traceback
            tb = traceback.extract_tb(e.__traceback__)[-1]
            raise Refuse(f'{what}: source has a shape this translator does not understand '
                         f'({type(e).__name__}: {e}; while reading `{(tb.line or "").strip()[:70]}`)')
    wrapped.__name__ = getattr(gen, '__name__', 'generator')
    return wrapped

SRC = 'lentil/detector.py'

def _fn(tree, name):
    f = [n for n in tree.body if isinstance(n, ast.FunctionDef) and n.name == name]
    if not f: raise Refuse(f'{name} not found')
    return f[0]

def _lean_int(e, env):
    """integer expression -> Lean Int term (names through env, `//` -> `/`)"""
    if isinstance(e, ast.Constant) and isinstance(e.value, int): return str(e.value)
    src = ast.unparse(e)
    if src in env: return env[src]
    if isinstance(e, ast.BinOp):
        op = {ast.FloorDiv: '/', ast.Mult: '*', ast.Add: '+', ast.Sub: '-'}.get(type(e.op))
        if op is None: raise Refuse(f'operator in {src}')
        return f'({_lean_int(e.left, env)} {op} {_lean_int(e.right, env)})'
    raise Refuse(f'integer expression not understood: {src}')

def _bayer(tree):
    f = _fn(tree, 'collect_charge_bayer')
    env = {'img.shape[1]': 'rows', 'img.shape[2]': 'cols', 'oversample': 'os'}
    per_colour = {}
    for st in f.body:
        if not isinstance(st, ast.Assign) or len(st.targets) != 1 or not isinstance(st.targets[0], ast.Name): continue
        name, v = st.targets[0].id, st.value
        if name in ('nrow', 'ncol'):
            env[name] = _lean_int(v, env)
        elif name.endswith('_mosaic') and isinstance(v, ast.Call):
            col = name[:-len('_mosaic')]
            fn = ast.unparse(v.func)
            kenv = dict(env); kenv[f'{col}_kernel.shape[0]'] = 'd0'; kenv[f'{col}_kernel.shape[1]'] = 'd1'
            if fn in ('np.tile', 'numpy.tile'):
                if len(v.args) != 2 or ast.unparse(v.args[0]) != f'{col}_kernel' or not isinstance(v.args[1], ast.Tuple) or len(v.args[1].elts) != 2:
                    raise Refuse(f'tile call: {ast.unparse(v)}')
                per_colour.setdefault(col, {})['reps'] = tuple(_lean_int(x, kenv) for x in v.args[1].elts)
            elif fn in ('np.repeat', 'numpy.repeat'):
                steps, cur = [], v
                while isinstance(cur, ast.Call) and ast.unparse(cur.func) in ('np.repeat', 'numpy.repeat'):
                    kw = {k.arg: k.value for k in cur.keywords}
                    if len(cur.args) != 2 or 'axis' not in kw or not isinstance(kw['axis'], ast.Constant): raise Refuse(f'repeat call: {ast.unparse(cur)}')
                    steps.append((_lean_int(cur.args[1], env), int(kw['axis'].value)))
                    cur = cur.args[0]
                if ast.unparse(cur) != name: raise Refuse(f'repeat of something else: {ast.unparse(v)}')
                per_colour.setdefault(col, {})['repeats'] = sorted(reversed(steps), key=lambda t: t[1])   # repeats along different axes commute: canonical order by axis
            else:
                raise Refuse(f'mosaic built by {fn} (expected np.tile then np.repeat)')
    if sorted(per_colour) != ['blue', 'green', 'red']: raise Refuse(f'colour channels found: {sorted(per_colour)}')
    first = per_colour['red']
    if 'reps' not in first or 'repeats' not in first: raise Refuse('red mosaic: tile/repeat not found')
    for col, d in per_colour.items():
        if d != first: raise Refuse(f'{col} mosaic is built differently from red: {d} vs {first}')
    out = [f'/-- `np.tile(kernel, (…, …))` repeat counts for an image of (rows, cols), oversampling `os`, kernel of shape (d0, d1) -/\n'
           f'def bayerTileReps (rows cols os d0 d1 : Int) : Int × Int := ({first["reps"][0]}, {first["reps"][1]})\n',
           '/-- the nested `np.repeat(·, factor, axis=…)` calls as (factor, axis), ordered by axis (they commute) -/\n'
           f'def bayerRepeats (rows cols os : Int) : List (Int × Int) := [{", ".join(f"({a}, {b})" for a, b in first["repeats"])}]\n']
    return out, f'bayer reps {first["reps"]} repeats {first["repeats"]}'

def _bayer_wiring(tree):
    """which letter, efficiency and einsum each colour channel of collect_charge_bayer uses, and how the channels are combined"""
    f = _fn(tree, 'collect_charge_bayer')
    params = [a.arg for a in f.args.args]
    kern, chan, qsrc, flat, sep = {}, {}, {}, None, None
    def combine(st):
        nonlocal flat, sep
        if not (isinstance(st, ast.Assign) and ast.unparse(st.targets[0]) == 'out'): raise Refuse(f'flatten branch: {ast.unparse(st)[:60]}')
        v = st.value
        if isinstance(v, ast.Tuple):
            sep = [ast.unparse(e) for e in v.elts]
        else:
            terms = []
            def walk(e):
                if isinstance(e, ast.BinOp) and isinstance(e.op, ast.Add): walk(e.left); walk(e.right)
                elif isinstance(e, ast.Name): terms.append(e.id)
                else: raise Refuse(f'flattened sum: {ast.unparse(v)}')
            walk(v); flat = terms
    for st in f.body:
        if isinstance(st, ast.If) and ast.unparse(st.test) == 'flatten':
            if len(st.body) != 1 or len(st.orelse) != 1: raise Refuse('flatten branch shape')
            combine(st.body[0]); sep_before = sep; combine(st.orelse[0])
            if not (isinstance(st.body[0].value, ast.BinOp) and isinstance(st.orelse[0].value, ast.Tuple)): raise Refuse('flatten=True must sum, flatten=False must return the tuple')
            continue
        if not isinstance(st, ast.Assign) or len(st.targets) != 1 or not isinstance(st.targets[0], ast.Name): continue
        name, v = st.targets[0].id, st.value
        if name.startswith('qe_') and name in params:
            if not (isinstance(v, ast.Call) and ast.unparse(v.func) == 'qe_asarray' and len(v.args) == 3 and not v.keywords
                    and [ast.unparse(a) for a in v.args[1:]] == ['wave', 'waveunit'] and isinstance(v.args[0], ast.Name)): raise Refuse(f'qe conversion: {ast.unparse(st)}')
            qsrc[name] = v.args[0].id
        elif name.endswith('_kernel'):
            if not (isinstance(v, ast.Call) and ast.unparse(v.func) in ('np.where', 'numpy.where') and len(v.args) == 3 and isinstance(v.args[0], ast.Compare)
                    and ast.unparse(v.args[0].left) == 'bayer_pattern' and isinstance(v.args[0].ops[0], ast.Eq) and isinstance(v.args[0].comparators[0], ast.Constant)
                    and isinstance(v.args[0].comparators[0].value, str) and len(v.args[0].comparators[0].value) == 1
                    and [ast.unparse(a) for a in v.args[1:]] == ['1', '0']): raise Refuse(f'kernel: {ast.unparse(st)}')
            kern[name[:-len('_kernel')]] = v.args[0].comparators[0].value
        elif name.endswith('_e'):
            col = name[:-2]
            if not (isinstance(v, ast.BinOp) and isinstance(v.op, ast.Mult) and isinstance(v.left, ast.Call) and ast.unparse(v.left.func) in ('np.einsum', 'numpy.einsum')
                    and len(v.left.args) == 3 and isinstance(v.left.args[0], ast.Constant) and ast.unparse(v.left.args[1]) == 'img' and isinstance(v.left.args[2], ast.Name)
                    and isinstance(v.right, ast.Name)): raise Refuse(f'channel image: {ast.unparse(st)}')
            chan[col] = (v.left.args[0].value, v.left.args[2].id, v.right.id)
    if sorted(kern) != ['blue', 'green', 'red'] or sorted(chan) != ['blue', 'green', 'red'] or flat is None or sep is None: raise Refuse(f'channel wiring not all found: {sorted(kern)} {sorted(chan)}')
    for q in ('qe_red', 'qe_green', 'qe_blue'):
        if qsrc.get(q) != q: raise Refuse(f'{q} is not converted from its own parameter: {qsrc.get(q)}')
    def s(x): return '"' + x + '"'
    rows = []
    for col in ('red', 'green', 'blue'):
        sub, q, mos = chan[col]
        if not (mos.endswith('_mosaic') and mos[:-len('_mosaic')] in kern): raise Refuse(f'{col}_e is multiplied by {mos}')
        rows.append(f"({s(col + '_e')}, '{kern[mos[:-len('_mosaic')]]}', {s(sub)}, {s(q)})")
    out = ['/-- colour channels of `collect_charge_bayer`: (channel image, letter its kernel selects with `np.where(bayer_pattern == ·, 1, 0)`,\n'
           'einsum subscripts, efficiency contracted with the cube, mosaic it is multiplied by) -/\n'
           f'def bayerChannels : List (String × Char × String × String) := [{", ".join(rows)}]\n',
           '/-- terms of the `flatten=True` sum, in source order -/\n'
           f'def bayerFlattenTerms : List String := [{", ".join(s(t) for t in flat)}]\n',
           '/-- elements of the `flatten=False` tuple, in source order -/\n'
           f'def bayerSeparateOrder : List String := [{", ".join(s(t) for t in sep)}]\n']
    return out, f'bayer channels {[(c, chan[c][2], kern[chan[c][2][:-7]], chan[c][1]) for c in ("red", "green", "blue")]} flat {flat} separate {sep}'

def _adc(tree):
    f = _fn(tree, 'adc')
    steps, order_src, einsum, cube = [], {}, {}, None
    def s(x): return '"' + x.replace('\\', '\\\\').replace('"', '\\"') + '"'
    for st in f.body:
        src = ast.unparse(st)
        if isinstance(st, ast.If) and ast.unparse(st.test) == 'saturation_capacity':
            w = [x for x in st.body if isinstance(x, ast.Assign)]
            if len(w) != 1 or ast.unparse(w[0].targets[0]) != 'img': raise Refuse('saturation block')
            steps.append(('saturate', ast.unparse(w[0].value)))
        elif isinstance(st, ast.If) and 'gain.ndim in' in ast.unparse(st.test):
            node = st
            while True:
                t = node.test
                if not (isinstance(t, ast.Compare) and ast.unparse(t.left) == 'gain.ndim' and isinstance(t.comparators[0], ast.List)): raise Refuse(f'gain dispatch: {ast.unparse(t)}')
                nds = [int(e.value) for e in t.comparators[0].elts]
                mo = [x for x in node.body if isinstance(x, ast.Assign) and ast.unparse(x.targets[0]) == 'model_order']
                if len(mo) != 1: raise Refuse('model_order assignment')
                for nd in nds: order_src[nd] = ast.unparse(mo[0].value)
                if len(node.orelse) == 1 and isinstance(node.orelse[0], ast.If): node = node.orelse[0]
                else:
                    if not (len(node.orelse) == 1 and isinstance(node.orelse[0], ast.Raise)): raise Refuse('gain dispatch: final else must raise')
                    break
        elif isinstance(st, ast.For) and ast.unparse(st.target) == 'order':
            it = st.iter
            if not (isinstance(it, ast.Call) and ast.unparse(it.func) in ('np.arange', 'numpy.arange') and len(it.args) == 3 and ast.unparse(it.args[2]) == '-1'):
                raise Refuse(f'power-cube loop: {ast.unparse(it)}')
            if len(st.body) != 2: raise Refuse('power-cube loop body')
            dst, pw = st.body
            if ast.unparse(dst) != 'd = model_order - order': raise Refuse(f'power-cube index: {ast.unparse(dst)}')
            if not (isinstance(pw, ast.Assign) and ast.unparse(pw.targets[0]) == 'img_cube[d]' and isinstance(pw.value, ast.BinOp) and isinstance(pw.value.op, ast.Pow)
                    and ast.unparse(pw.value.left) == 'img_cube[d]'): raise Refuse(f'power-cube power: {ast.unparse(pw)}')
            env = {'model_order': 'n', 'order': '(n - d)'}          # d = n - order  <=>  order = n - d
            cube = (_lean_int(it.args[0], {'model_order': 'n'}), _lean_int(it.args[1], {'model_order': 'n'}), _lean_int(pw.value.right, env))
            steps.append(('gain', 'power cube + einsum'))
        elif isinstance(st, ast.If) and ast.unparse(st.test).startswith('gain.ndim =='):
            node = st
            while True:
                nd = int(node.test.comparators[0].value)
                ca = node.body[0].value
                if ast.unparse(ca.func) not in ('np.einsum', 'numpy.einsum'): raise Refuse('einsum expected')
                einsum[nd] = ca.args[0].value
                if len(node.orelse) == 1 and isinstance(node.orelse[0], ast.If): node = node.orelse[0]
                else:
                    ca = node.orelse[0].value; einsum[3] = ca.args[0].value; break
        elif isinstance(st, ast.Assign) and ast.unparse(st.targets[0]) == 'img' and isinstance(st.value, ast.Call) and ast.unparse(st.value.func) in ('np.floor', 'numpy.floor'):
            steps.append(('floor', ast.unparse(st.value.args[0])))
        elif isinstance(st, ast.Assign) and isinstance(st.targets[0], ast.Subscript) and ast.unparse(st.targets[0].value) == 'img':
            steps.append(('clamp', f'{ast.unparse(st.targets[0].slice)} -> {ast.unparse(st.value)}'))
        elif isinstance(st, ast.If) and 'dtype' in ast.unparse(st.test):
            steps.append(('cast', ast.unparse(st.body[0].value)))
        elif isinstance(st, ast.Assign) and ast.unparse(st.targets[0]) == 'img' and src not in ('img = np.asarray(img)',):
            raise Refuse(f'adc: statement on img not understood: {src[:80]}')
    if cube is None or sorted(einsum) != [1, 2, 3] or sorted(order_src) != [0, 1, 2, 3]: raise Refuse('adc: dispatch / cube / einsum not all found')
    out = ['/-- digitisation steps of `adc` in source order, with their key expression -/\n'
           f'def adcSteps : List (String × String) := [{", ".join(f"({s(a)}, {s(b)})" for a, b in steps)}]\n',
           '/-- where the polynomial order comes from, per `gain.ndim` -/\n'
           f'def adcOrderSource : List (Nat × String) := [{", ".join(f"({k}, {s(v)})" for k, v in sorted(order_src.items()))}]\n',
           '/-- einsum subscripts per `gain.ndim` (a 0-d gain has been given a new axis and runs as ndim 1) -/\n'
           f'def adcEinsum : List (Nat × String) := [{", ".join(f"({k}, {s(v)})" for k, v in sorted(einsum.items()))}]\n',
           '/-- the power-cube loop `for order in arange(start, stop, -1): d = n - order; cube[d] = cube[d]**order`:\n'
           'slice `d` of an order-`n` model is raised to this exponent (1 when the loop does not reach it) -/\n'
           f'def adcCubeExponent (n d : Int) : Int := if decide ({cube[1]} < n - d) && decide (n - d ≤ {cube[0]}) then {cube[2]} else 1\n']
    return out, f'adc steps {[a for a, _ in steps]} cube {cube}'

def generator(repo):
    tree = ast.parse(open(os.path.join(repo, SRC)).read())
    b, nb = _bayer(tree)
    w, nw = _bayer_wiring(tree)
    a, na = _adc(tree)
    return '\n'.join(b + w + a), [nb, nw, na]

MODULES = [{'name': 'DetectorIdx', 'src': SRC, 'generator': _robust(generator, 'collect_charge_bayer / adc bookkeeping'), 'props': ['C16']}]
