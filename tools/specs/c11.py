"""C11 — translator spec: the radial polynomial formula of `lentil.zernike.R` and the mode formula of `lentil.zernike.zernike`.

Real translation (a source edit changes the generated definition, and with it the theorems of Props/C11.lean that are stated about it):

  * R:  the parity guard `(n - m) & 1`, the number of terms `int(n-m)//2 + 1`, the coefficient `(-1)**k * factorial(n-k) /
        (factorial(k) * factorial((n+m)//2-k) * factorial((n-m)//2-k))` as an exact numerator / denominator pair, and the exponent
        `n-2*k`  ->  Gen.radialOdd / radialCount / radialNum / radialDen / radialExp  (over Nat, truncated subtraction; valid modes keep
        every subtraction non-negative);
  * zernike:  the decision tree on (m, n, normalize) and the product in each leaf (`np.sqrt(2) * np.sqrt(n+1) * R(m, n, rho) *
        np.cos(m*theta) * mask`, …)  ->  Gen.zernCore, generic in the scalar type (√k, cos, sin are parameters; the mask enters as the
        factor 1/0 exactly where the code multiplies by it).

Refused: anything outside this expression language (other functions, other statement shapes)."""
import ast, os
from py2lean import Refuse

def _fn(mod, name):
    for n in mod.body:
        if isinstance(n, ast.FunctionDef) and n.name == name: return n
    raise Refuse(f'{name} not found')

# ---------------------------------------------------------------------------------------------- integer expressions over n, m, k (Nat)
def _nat(e, names):
    """Python int expression -> Lean Nat expression (truncated subtraction)"""
    if isinstance(e, ast.Name) and e.id in names: return names[e.id] if isinstance(names, dict) else e.id
    if isinstance(e, ast.Constant) and isinstance(e.value, int) and not isinstance(e.value, bool) and e.value >= 0: return f'({e.value} : Nat)'
    if isinstance(e, ast.Call) and ast.unparse(e.func) == 'int' and len(e.args) == 1 and not e.keywords: return _nat(e.args[0], names)
    if isinstance(e, ast.BinOp):
        if isinstance(e.op, ast.FloorDiv):
            if not (isinstance(e.right, ast.Constant) and isinstance(e.right.value, int) and e.right.value > 0): raise Refuse('// only by a positive literal')
            return f'({_nat(e.left, names)} / {e.right.value})'
        op = {ast.Add: '+', ast.Sub: '-', ast.Mult: '*'}.get(type(e.op))
        if op: return f'({_nat(e.left, names)} {op} {_nat(e.right, names)})'
    raise Refuse('integer expression ' + ast.unparse(e))

def _factorials(e, names):
    """product of factorial(...) calls -> Lean Nat expression"""
    if isinstance(e, ast.BinOp) and isinstance(e.op, ast.Mult): return f'({_factorials(e.left, names)} * {_factorials(e.right, names)})'
    if isinstance(e, ast.Call) and ast.unparse(e.func).split('.')[-1] == 'factorial' and len(e.args) == 1 and not e.keywords:
        return f'fact {_nat(e.args[0], names)}'
    raise Refuse('product of factorials expected: ' + ast.unparse(e))

def _signed(e, names):
    """`(-1) ** k * <factorials>`  -> Lean Int expression"""
    if isinstance(e, ast.BinOp) and isinstance(e.op, ast.Mult):
        l = e.left
        if (isinstance(l, ast.BinOp) and isinstance(l.op, ast.Pow) and ast.unparse(l.left).replace(' ', '') in ('(-1)', '-1')):
            return f'((-1 : Int) ^ {_nat(l.right, names)} * (({_factorials(e.right, names)} : Nat) : Int))'
    raise Refuse('signed coefficient numerator ' + ast.unparse(e))

def _radial(R):
    body = [s for s in R.body if not (isinstance(s, ast.Expr) and isinstance(s.value, ast.Constant))]
    names = ('n', 'm', 'k')
    # m = int(np.abs(m)); n = int(np.abs(n)): the model takes |m|, n as naturals
    pre = [ast.unparse(s).replace(' ', '') for s in body[:-1]]
    if sorted(pre) != sorted(['m=int(np.abs(m))', 'n=int(np.abs(n))']): raise Refuse('R: argument normalisation changed: ' + '; '.join(pre))
    top = body[-1]
    if not isinstance(top, ast.If): raise Refuse('R: parity guard not found')
    t = top.test
    if not (isinstance(t, ast.BinOp) and isinstance(t.op, ast.BitAnd) and isinstance(t.right, ast.Constant) and t.right.value == 1):
        raise Refuse('R: guard is not `(…) & 1`: ' + ast.unparse(t))
    if [ast.unparse(s) for s in top.body] != ['return 0']: raise Refuse('R: odd branch does not return 0')
    odd = f'decide ({_nat(t.left, names)} % 2 = 1)'
    loops = [s for s in top.orelse if isinstance(s, ast.For)]
    if len(loops) != 1: raise Refuse('R: accumulation loop not found')
    lp = loops[0]
    if not (isinstance(lp.iter, ast.Call) and ast.unparse(lp.iter.func) == 'range' and len(lp.iter.args) == 1 and ast.unparse(lp.target) == 'k'):
        raise Refuse('R: loop is not `for k in range(…)`')
    # loop-invariant integer temporaries assigned before the loop (`p = n//2 + m//2`, …) are substituted
    names = {x: x for x in names}
    for st in top.orelse:
        if st is lp: break
        if isinstance(st, ast.Assign) and len(st.targets) == 1 and isinstance(st.targets[0], ast.Name) and ast.unparse(st.value).replace(' ', '') != 'np.zeros(rho.shape)':
            names[st.targets[0].id] = _nat(st.value, names)
    count = _nat(lp.iter.args[0], names)
    asg = [s for s in lp.body if isinstance(s, ast.Assign)]; acc = [s for s in lp.body if isinstance(s, ast.AugAssign)]
    if len(asg) != 1 or len(acc) != 1 or len(lp.body) != 2: raise Refuse('R: loop body changed')
    cname = ast.unparse(asg[0].targets[0])
    v = asg[0].value
    if not (isinstance(v, ast.BinOp) and isinstance(v.op, ast.Div)): raise Refuse('R: coefficient is not a quotient')
    num, den = _signed(v.left, names), _factorials(v.right, names)
    a = acc[0]
    if not (isinstance(a.op, ast.Add) and isinstance(a.value, ast.BinOp) and isinstance(a.value.op, ast.Mult) and ast.unparse(a.value.left) == cname
            and isinstance(a.value.right, ast.BinOp) and isinstance(a.value.right.op, ast.Pow) and ast.unparse(a.value.right.left) == 'rho'):
        raise Refuse('R: accumulation is not `R += Rk * rho ** (…)`')
    exp = _nat(a.value.right.right, names)
    # the accumulator must start from zeros and be returned
    if not any(isinstance(s, ast.Assign) and ast.unparse(s.value).replace(' ', '') == 'np.zeros(rho.shape)' for s in top.orelse):
        raise Refuse('R: accumulator is not initialised with zeros')
    return odd, count, num, den, exp

# ---------------------------------------------------------------------------------------------- the mode formula
def _scalar(e):
    """leaf expression of `zernike` -> Lean term over K with parameters sqrtN, cos, sin, Rv, theta, mk, n : Nat, m : Int"""
    if isinstance(e, ast.Name):
        if e.id == 'mask': return 'mk'
        raise Refuse('name ' + e.id)
    if isinstance(e, ast.BinOp) and isinstance(e.op, ast.Mult):
        if ast.unparse(e).replace(' ', '') == 'm*theta': return '((m : K) * theta)'
        return f'({_scalar(e.left)} * {_scalar(e.right)})'
    if isinstance(e, ast.Call):
        f = ast.unparse(e.func)
        if f == 'np.sqrt' and len(e.args) == 1: return f'sqrtN {_nat(e.args[0], ("n",))}'
        if f == 'R':
            if [ast.unparse(a) for a in e.args] != ['m', 'n', 'rho'] or e.keywords: raise Refuse('R called with ' + ast.unparse(e))
            return 'Rv'
        if f in ('np.cos', 'np.sin') and len(e.args) == 1: return f"{f.split('.')[1]} {_scalar(e.args[0])}"
        if f == 'np.where' and len(e.args) == 3 and not e.keywords and ast.unparse(e.args[0]) == 'mask' and ast.unparse(e.args[2]) in ('0', '0.0'):
            return f'(if mask then {_scalar(e.args[1])} else 0)'          # selection with the mask (no product: nothing outside the mask is evaluated into the result)
    raise Refuse('mode expression ' + ast.unparse(e))

def _cond(t):
    s = ast.unparse(t).replace(' ', '')
    if s == 'm==0': return 'm = 0'
    if s == 'n==0': return 'n = 0'
    if s == 'm>0': return '0 < m'
    if s == 'm<0': return 'm < 0'
    if s == 'normalize': return 'normalize = true'
    raise Refuse('condition ' + s)

def _tree(stmts, ind):
    stmts = [s for s in stmts if not isinstance(s, ast.Pass)]
    if len(stmts) != 1: raise Refuse('mode tree: one statement per branch expected')
    s = stmts[0]
    if isinstance(s, ast.If):
        return f"{ind}if {_cond(s.test)} then\n{_tree(s.body, ind + '  ')}\n{ind}else\n{_tree(s.orelse, ind + '  ')}"
    if isinstance(s, ast.Assign) and ast.unparse(s.targets[0]) == 'Z': return ind + _scalar(s.value)
    raise Refuse('mode tree statement ' + ast.unparse(s)[:80])

def _generator(repo):
    mod = ast.parse(open(os.path.join(repo, 'lentil/zernike.py')).read())
    odd, count, num, den, exp = _radial(_fn(mod, 'R'))
    Z = _fn(mod, 'zernike')
    body = [s for s in Z.body if not (isinstance(s, ast.Expr) and isinstance(s.value, ast.Constant))]
    trees = [s for s in body if isinstance(s, ast.If) and ast.unparse(s.test).replace(' ', '') == 'm==0']
    if len(trees) != 1: raise Refuse('zernike: decision tree on m not found')
    idx = [s for s in body if isinstance(s, ast.Assign) and ast.unparse(s).replace(' ', '') == 'm,n=zernike_index(index)']
    if len(idx) != 1: raise Refuse('zernike: `m, n = zernike_index(index)` not found')
    tail = [ast.unparse(s).replace(' ', '') for s in body[body.index(trees[0]) + 1:]]
    if tail not in (['out=Z', 'returnout'], ['returnZ']): raise Refuse('zernike: result is post-processed: ' + '; '.join(tail))
    masks = [s for s in body if isinstance(s, ast.Assign) and ast.unparse(s.targets[0]) == 'mask']
    if [ast.unparse(s.value).replace(' ', '') for s in masks] != ['np.asarray(mask,dtype=bool)']: raise Refuse('zernike: mask is not cast with dtype=bool')
    # ---- where the coordinates come from: the block between the cast and the index call, translated; and nothing else in the body
    if body.index(masks[0]) != 0: raise Refuse('zernike: the bool cast of the mask is not the first statement')
    between = body[1:body.index(idx[0])]
    if body.index(trees[0]) != body.index(idx[0]) + 1: raise Refuse('zernike: statements between the index call and the decision tree')
    def _src(stmts):
        if not stmts: return 'CoordSrc.caller'
        if len(stmts) != 1: raise Refuse('zernike: coordinate block: one statement per branch expected')
        st = stmts[0]
        if isinstance(st, ast.If):
            t = ast.unparse(st.test).replace(' ', '')
            c = {'rhoisNone': 'rhoNone', 'thetaisNone': 'thetaNone', 'rhoisnotNone': '!rhoNone', 'thetaisnotNone': '!thetaNone'}.get(t)
            if c is None: raise Refuse('zernike: coordinate block condition ' + ast.unparse(st.test))
            return f'(if {c} then {_src(st.body)} else {_src(st.orelse)})'
        if isinstance(st, ast.Assign) and ast.unparse(st).replace(' ', '').replace('(rho,theta)', 'rho,theta') == 'rho,theta=zernike_coordinates(mask)':
            return 'CoordSrc.default'         # the mask alone: shift=None (centroid origin), rotate=0
        if isinstance(st, ast.Raise) and st.exc is not None and ast.unparse(st.exc).startswith('ValueError('): return 'CoordSrc.refuse'
        raise Refuse('zernike: coordinate block statement ' + ast.unparse(st)[:80])
    if len(between) != 1 or not isinstance(between[0], ast.If): raise Refuse('zernike: one `if` between the mask cast and the index call expected')
    coord_src = _src(between)
    zc_body = [s for s in _fn(mod, 'zernike_coordinates').body if not (isinstance(s, ast.Expr) and isinstance(s.value, ast.Constant))]
    if ast.unparse(zc_body[0]).replace(' ', '') != 'mask=np.asarray(mask,dtype=bool)':
        raise Refuse('zernike_coordinates: the mask is not cast with dtype=bool before use')
    tree = _tree([trees[0]], '  ')
    # ---- zernike_coordinates: default origin
    ZC = _fn(mod, 'zernike_coordinates')
    cb = [x for x in ZC.body if not (isinstance(x, ast.Expr) and isinstance(x.value, ast.Constant))]
    guard = [x for x in cb if isinstance(x, ast.If) and ast.unparse(x.test).replace(' ', '') == 'shiftisNone']
    if len(guard) != 1 or guard[0].orelse: raise Refuse('zernike_coordinates: `if shift is None` not found')
    ga = {ast.unparse(x.targets[0]): x.value for x in guard[0].body if isinstance(x, ast.Assign)}
    if set(ga) != {'center', 'centroid', 'shift'}: raise Refuse('zernike_coordinates: default-shift block changed')
    ce = ga['center']
    if not (isinstance(ce, ast.BinOp) and isinstance(ce.op, ast.FloorDiv) and isinstance(ce.right, ast.Constant) and isinstance(ce.right.value, int)
            and ce.right.value > 0 and ast.unparse(ce.left).replace(' ', '') in ('np.asarray(mask.shape)', 'np.array(mask.shape)')):
        raise Refuse('zernike_coordinates: center is not np.asarray(mask.shape) // <positive int>: ' + ast.unparse(ce))
    center_l = f'(n / {ce.right.value})'
    if ast.unparse(ga['centroid']).replace(' ', '') not in ('lentil.centroid(mask)', 'lentil.util.centroid(mask)'): raise Refuse('zernike_coordinates: centroid call changed')
    sh = ga['shift']
    if not (isinstance(sh, ast.Tuple) and len(sh.elts) == 2): raise Refuse('zernike_coordinates: shift is not a pair')
    def comp(e, k):
        env = {f'centroid[{k}]': 'c', f'center[{k}]': '((zCenter n : Int) : K)'}
        def tr(x):
            u = ast.unparse(x)
            if u in env: return env[u]
            if isinstance(x, ast.BinOp) and type(x.op) in (ast.Add, ast.Sub): return f"({tr(x.left)} {'+' if isinstance(x.op, ast.Add) else '-'} {tr(x.right)})"
            raise Refuse('zernike_coordinates: shift component ' + u)
        return tr(e)
    s0, s1 = comp(sh.elts[0], 0), comp(sh.elts[1], 1)
    if s0 != s1: raise Refuse('zernike_coordinates: the two shift components are built differently')
    src = ast.unparse(ZC).replace(' ', '')
    for needle in ('rr,cc=lentil.helper.mesh(mask.shape,shift)', 'rho=r/np.max(r*mask)'):
        if needle not in src.replace('(rr,cc)', 'rr,cc'): raise Refuse('zernike_coordinates: statement changed: ' + needle)
    # ---- zernike_coordinates: `angle = …` (real expression in rotate, np.pi) and `theta = np.angle(<complex expression>)` TRANSLATED:
    # the complex argument is split symbolically into real and imaginary part over rr, cc, ca = cos(angle), sa = sin(angle)
    zasg = {ast.unparse(x.targets[0]): x.value for x in ZC.body if isinstance(x, ast.Assign) and len(x.targets) == 1}
    if 'angle' not in zasg or 'theta' not in zasg: raise Refuse('zernike_coordinates: angle / theta assignment not found')
    def areal(e):
        t = ast.unparse(e)
        if t == 'rotate': return 'rotate'
        if t in ('np.pi', 'math.pi'): return 'pi'
        if isinstance(e, ast.Constant) and isinstance(e.value, (int, float)) and not isinstance(e.value, bool) and e.value == int(e.value) and e.value >= 0:
            return f'(({int(e.value)} : Nat) : K)'
        if isinstance(e, ast.UnaryOp) and isinstance(e.op, ast.USub): return f'(-{areal(e.operand)})'
        if isinstance(e, ast.BinOp) and type(e.op) in (ast.Add, ast.Sub, ast.Mult, ast.Div):
            return f"({areal(e.left)} {({ast.Add: '+', ast.Sub: '-', ast.Mult: '*', ast.Div: '/'})[type(e.op)]} {areal(e.right)})"
        raise Refuse('zernike_coordinates: angle expression ' + t)
    angle_l = areal(zasg['angle'])
    def neg(a): return None if a is None else f'(-{a})'
    def add(a, b): return b if a is None else a if b is None else f'({a} + {b})'
    def sub(a, b): return neg(b) if a is None else a if b is None else f'({a} - {b})'
    def mul(a, b): return None if a is None or b is None else b if a == '1' else a if b == '1' else f'({a} * {b})'
    def cx(e):
        t = ast.unparse(e).replace(' ', '')
        if isinstance(e, ast.Name) and e.id in ('rr', 'cc'): return (e.id, None)
        if isinstance(e, ast.Constant) and isinstance(e.value, complex) and e.value == 1j: return (None, '1')
        if isinstance(e, ast.Call) and ast.unparse(e.func) == 'np.exp' and len(e.args) == 1 and not e.keywords \
                and ast.unparse(e.args[0]).replace(' ', '') in ('1j*angle', 'angle*1j'): return ('ca', 'sa')
        if isinstance(e, ast.UnaryOp) and isinstance(e.op, ast.USub):
            a = cx(e.operand); return (neg(a[0]), neg(a[1]))
        if isinstance(e, ast.BinOp) and isinstance(e.op, (ast.Add, ast.Sub)):
            a, b = cx(e.left), cx(e.right); f = add if isinstance(e.op, ast.Add) else sub
            return (f(a[0], b[0]), f(a[1], b[1]))
        if isinstance(e, ast.BinOp) and isinstance(e.op, ast.Mult):
            a, b = cx(e.left), cx(e.right)
            return (sub(mul(a[0], b[0]), mul(a[1], b[1])), add(mul(a[0], b[1]), mul(a[1], b[0])))
        raise Refuse('zernike_coordinates: complex expression ' + t)
    th = zasg['theta']
    if not (isinstance(th, ast.Call) and ast.unparse(th.func) == 'np.angle' and len(th.args) == 1 and not th.keywords):
        raise Refuse('zernike_coordinates: theta is not np.angle(<expression>)')
    th_re, th_im = cx(th.args[0])
    if th_re is None or th_im is None: raise Refuse('zernike_coordinates: theta argument has a vanishing real or imaginary part')
    # `r = np.abs(<complex expression in rr, cc>)`: real and imaginary part of the argument, translated with the same splitter
    rv = zasg.get('r')
    if not (isinstance(rv, ast.Call) and ast.unparse(rv.func) == 'np.abs' and len(rv.args) == 1 and not rv.keywords):
        raise Refuse('zernike_coordinates: r is not np.abs(<expression>)')
    r_re, r_im = cx(rv.args[0])
    if r_re is None or r_im is None or any(t in r_re + r_im for t in ('ca', 'sa')):
        raise Refuse('zernike_coordinates: the argument of np.abs is not a complex combination of rr and cc with both parts present')
    # ---- zernike_index: row search argument, k, r, sign, row seeds, loop count, append step, final product
    ZI = _fn(mod, 'zernike_index')
    ib = [x for x in ZI.body if not (isinstance(x, ast.Expr) and isinstance(x.value, ast.Constant))]
    if len(ib) != 4 or not isinstance(ib[0], ast.If) or ast.unparse(ib[0].test).replace(' ', '') != 'j<1' or not isinstance(ib[0].body[0], ast.Raise):
        raise Refuse('zernike_index: `if j < 1: raise` not found')
    nasg = ib[1]
    if not (isinstance(nasg, ast.Assign) and ast.unparse(nasg.targets[0]) == 'n'): raise Refuse('zernike_index: n assignment')
    nv = nasg.value
    # int(np.ceil(<arg>) - 1)
    if not (isinstance(nv, ast.Call) and ast.unparse(nv.func) == 'int' and isinstance(nv.args[0], ast.BinOp) and isinstance(nv.args[0].op, ast.Sub)
            and ast.unparse(nv.args[0].right) == '1' and isinstance(nv.args[0].left, ast.Call) and ast.unparse(nv.args[0].left.func) == 'np.ceil'):
        raise Refuse('zernike_index: row search is not int(np.ceil(…) - 1): ' + ast.unparse(nv))
    def rexp(e):
        u = ast.unparse(e)
        if u == 'j': return 'j'
        if isinstance(e, ast.Constant) and isinstance(e.value, int) and e.value >= 0: return f'(({e.value} : Nat) : K)'
        if isinstance(e, ast.UnaryOp) and isinstance(e.op, ast.USub): return f'(-{rexp(e.operand)})'
        if isinstance(e, ast.BinOp) and type(e.op) in (ast.Add, ast.Sub, ast.Mult, ast.Div):
            op = {ast.Add: '+', ast.Sub: '-', ast.Mult: '*', ast.Div: '/'}[type(e.op)]
            return '(' + rexp(e.left) + ' ' + op + ' ' + rexp(e.right) + ')'
        if isinstance(e, ast.Call) and ast.unparse(e.func) == 'np.sqrt' and len(e.args) == 1: return f'sqrt {rexp(e.args[0])}'
        raise Refuse('zernike_index: row search expression ' + u)
    search_l = rexp(nv.args[0].left.args[0])
    br = ib[2]
    if not (isinstance(br, ast.If) and ast.unparse(br.test).replace(' ', '') == 'n==0' and [ast.unparse(x).replace(' ', '') for x in br.body] == ['m=0']):
        raise Refuse('zernike_index: `if n == 0: m = 0` not found')
    if ast.unparse(ib[3]).replace(' ', '').replace('(m,n)', 'm,n') != 'returnm,n': raise Refuse('zernike_index: return changed')
    eb = br.orelse
    ea = {ast.unparse(x.targets[0]): x.value for x in eb if isinstance(x, ast.Assign)}
    kv = ea.get('k')
    if not (isinstance(kv, ast.BinOp) and isinstance(kv.op, ast.Div) and ast.unparse(kv.right) == '2'): raise Refuse('zernike_index: k is not <int expr> / 2')
    k_l = f'({_nat(kv.left, ("n",))} / 2)'
    rv = ea.get('r')
    if ast.unparse(rv).replace(' ', '') != 'int(j-k-1)': raise Refuse('zernike_index: r changed: ' + ast.unparse(rv))
    ifs = [x for x in eb if isinstance(x, ast.If)]
    if len(ifs) != 2: raise Refuse('zernike_index: sign / seed branches')
    def bit(t, v):
        if not (isinstance(t, ast.BinOp) and isinstance(t.op, ast.BitAnd) and ast.unparse(t.left) == v and ast.unparse(t.right) == '1'):
            raise Refuse(f'zernike_index: test is not `{v} & 1`')
    bit(ifs[0].test, 'j'); bit(ifs[1].test, 'n')
    def lit(stmts, name):
        if len(stmts) != 1 or not isinstance(stmts[0], ast.Assign) or ast.unparse(stmts[0].targets[0]) != name: raise Refuse(f'zernike_index: {name} branch')
        return ast.literal_eval(stmts[0].value)
    s_odd, s_even = lit(ifs[0].body, 'sign'), lit(ifs[0].orelse, 'sign')
    seed_odd, seed_even = lit(ifs[1].body, 'row_m'), lit(ifs[1].orelse, 'row_m')
    if not all(isinstance(x, int) and x >= 0 for x in seed_odd + seed_even) or not all(isinstance(x, int) for x in (s_odd, s_even)): raise Refuse('zernike_index: literals')
    lp = [x for x in eb if isinstance(x, ast.For)]
    if len(lp) != 1 or ast.unparse(lp[0].iter).replace(' ', '') != 'range(int(np.floor(n/2)))': raise Refuse('zernike_index: loop header changed')
    steps = []
    for st in lp[0].body:
        if not (isinstance(st, ast.Expr) and isinstance(st.value, ast.Call) and ast.unparse(st.value.func) == 'row_m.append' and len(st.value.args) == 1):
            raise Refuse('zernike_index: loop body is not a sequence of row_m.append(...)')
        a = st.value.args[0]; u = ast.unparse(a).replace(' ', '')
        prev = 'last' if not steps else f'({steps[-1]})'
        if u == 'row_m[-1]': steps.append(prev)
        elif isinstance(a, ast.BinOp) and isinstance(a.op, ast.Add) and ast.unparse(a.left).replace(' ', '') == 'row_m[-1]' and isinstance(a.right, ast.Constant) \
                and isinstance(a.right.value, int) and a.right.value >= 0:
            steps.append(f'{prev} + {a.right.value}')
        else: raise Refuse('zernike_index: append argument ' + u)
    mv = ea.get('m')
    if ast.unparse(mv).replace(' ', '') != 'row_m[r]*sign': raise Refuse('zernike_index: m is not row_m[r] * sign')
    idx_lean = ('/-- `zernike_index`: the argument of `np.ceil` in the row search `n = int(np.ceil(…) - 1)` -/\n'
                f'def rowSearchArg {{K : Type}} [Add K] [Sub K] [Mul K] [Div K] [Neg K] [NatCast K] (sqrt : K → K) (j : K) : K := {search_l}\n\n'
                '/-- `zernike_index`: `k`, `r = int(j - k - 1)` (a negative index from the end of the row list), the sign, the row seed, the number of\n'
                'loop passes and what one pass appends after the last entry `last` -/\n'
                f'def idxK (n : Nat) : Nat := {k_l}\n'
                'def idxR (j n : Nat) : Int := (j : Int) - (idxK n : Int) - 1\n'
                f'def idxSign (j : Nat) : Int := if j % 2 = 1 then ({s_odd} : Int) else ({s_even} : Int)\n'
                f'def rowSeed (n : Nat) : List Nat := if n % 2 = 1 then {list(seed_odd)} else {list(seed_even)}\n'
                'def rowLoops (n : Nat) : Nat := n / 2\n'
                f'def rowStep (last : Nat) : List Nat := [{", ".join(steps)}]\n\n')
    lean = (idx_lean + '/-- `zernike_coordinates`: the array centre index `np.asarray(mask.shape) // 2`, per axis of length `n` -/\n'
            f'def zCenter (n : Int) : Int := {center_l}\n\n'
            '/-- `zernike_coordinates`: default shift per axis, `centroid[k] - center[k]` (`c` = centroid coordinate) -/\n'
            f'def zShiftAxis {{K : Type}} [Sub K] [Add K] [IntCast K] (c : K) (n : Int) : K := {s0}\n\n'
            '/-- `zernike_coordinates`: `angle` (radians) from `rotate` (degrees); `pi` = np.pi -/\n'
            f'def zAngle {{K : Type}} [Add K] [Sub K] [Mul K] [Div K] [Neg K] [NatCast K] (rotate pi : K) : K := {angle_l}\n\n'
            '/-- `zernike_coordinates`: (real part, imaginary part) of the argument of `np.abs` in `r = …` (the radius is the modulus) -/\n'
            f'def zRadArg {{K : Type}} [Add K] [Sub K] [Mul K] [Neg K] (rr cc : K) : K × K := ({r_re}, {r_im})\n\n'
            '/-- `zernike_coordinates`: (real part, imaginary part) of the argument of `np.angle` in `theta = …`; `ca`, `sa` = cos and sin of `angle`\n'
            '(`np.exp(1j*angle)`), complex products expanded symbolically -/\n'
            f'def zThetaArg {{K : Type}} [Add K] [Sub K] [Mul K] [Neg K] (rr cc ca sa : K) : K × K := ({th_re}, {th_im})\n\n'
            'def fact : Nat → Nat\n  | 0 => 1\n  | n + 1 => (n + 1) * fact n\n\n'
            '/-- `R`: the guard `(n - m) & 1` (odd difference: the function returns 0) -/\n'
            f'def radialOdd (n m : Nat) : Bool := {odd}\n\n'
            '/-- `R`: number of terms, the argument of `range` -/\n'
            f'def radialCount (n m : Nat) : Nat := {count}\n\n'
            '/-- `R`: numerator and denominator of the coefficient `Rk` of term `k` (exact; the code divides in floating point) -/\n'
            f'def radialNum (n m k : Nat) : Int := {num}\n'
            f'def radialDen (n m k : Nat) : Nat := {den}\n\n'
            '/-- `R`: exponent of `rho` in term `k` -/\n'
            f'def radialExp (n m k : Nat) : Nat := {exp}\n\n'
            '/-- `zernike`: where (rho, theta) come from — `default` = `zernike_coordinates(mask)` (centroid origin, no rotation), `caller` = the\n'
            'arguments as given, `refuse` = `ValueError` -/\n'
            'inductive CoordSrc where\n  | default | caller | refuse\n  deriving DecidableEq, Repr\n\n'
            '/-- `zernike`: the block between the mask cast and `zernike_index(index)`; `rhoNone`/`thetaNone` = the argument is `None` -/\n'
            f'def zernCoordSrc (rhoNone thetaNone : Bool) : CoordSrc := {coord_src}\n\n'
            '/-- `zernike`: the decision tree on (m, n, normalize) and the product in each leaf; `Rv` = R(m, n, rho), `sqrtN k` = np.sqrt(k),\n'
            '`mk` = the mask entry as the factor 1 or 0 (where the code multiplies by the boolean mask; `np.where(mask, e, 0)` becomes `if mask then e else 0`) -/\n'
            'def zernCore {K : Type} [Add K] [Mul K] [Zero K] [One K] [IntCast K] (sqrtN : Nat → K) (cos sin : K → K)\n'
            '    (n : Nat) (m : Int) (normalize : Bool) (Rv theta : K) (mask : Bool) : K :=\n'
            '  let mk : K := if mask then 1 else 0\n' + tree + '\n')
    return lean, ['R: guard, term count, coefficient numerator/denominator and exponent translated; zernike: decision tree and leaf products translated',
                  'zernike: `m, n = zernike_index(index)`, bool cast of the mask and the unprocessed return checked structurally; the coordinate-source block (rho/theta None) translated; the body consists of exactly: cast, that block, index call, tree, return',
                  'zernike_index: row-search argument, k, r, sign rule, row seeds, loop count and append step translated; guard j < 1, n == 0 branch, m = row_m[r]*sign matched',
                  'zernike_coordinates: bool cast of the mask matched as first statement; centre index and default shift translated; angle (degrees -> radians) and the complex argument of theta = np.angle(…) translated (split into real and imaginary part); the complex argument of r = np.abs(…) translated; mesh call and rho statement matched']

MODULES = [{'name': 'ZernikeR', 'src': 'lentil/zernike.py', 'generator': _generator, 'props': ['C11', 'C12']}]
