"""C14 — unit tables of lentil/radiometry.py as exact Lean definitions.

`<WaveUnit>.to(name)` factors become a table `waveTo : WUnit → WUnit → K` whose decimal literals are exact rationals
(`1e-9` = 1/10^9, read from the literal's source text, never through a float); `<FluxUnit>.to(flux, name, wave)` bodies
become rational expressions in `flux, wave, H, C`.  Dispatch on unit names is the closed form
`x.lower() == 'lit'` / `x.lower() in [lits]`; anything else is refused."""
import ast, os, re
from fractions import Fraction
from py2lean import Refuse

SRC = 'lentil/radiometry.py'

def _branches(fn, argname):
    """[(set of names, return expr)] of an if/elif chain dispatching on `argname.lower()`; the final else must raise ValueError"""
    body = [s for s in fn.body if not (isinstance(s, ast.Expr) and isinstance(s.value, ast.Constant))]
    if len(body) != 1 or not isinstance(body[0], ast.If): raise Refuse(f'{fn.name}: body is not a single if-chain')
    node, out = body[0], []
    while True:
        t = node.test
        if not (isinstance(t, ast.Compare) and len(t.ops) == 1 and ast.unparse(t.left) == f'{argname}.lower()'):
            raise Refuse(f'{fn.name}: test {ast.unparse(t)[:50]}')
        c = t.comparators[0]
        if isinstance(t.ops[0], ast.Eq) and isinstance(c, ast.Constant) and isinstance(c.value, str): names = {c.value}
        elif isinstance(t.ops[0], ast.In) and isinstance(c, (ast.List, ast.Tuple)) and all(isinstance(e, ast.Constant) and isinstance(e.value, str) for e in c.elts):
            names = {e.value for e in c.elts}
        else: raise Refuse(f'{fn.name}: test {ast.unparse(t)[:50]}')
        if len(node.body) != 1 or not isinstance(node.body[0], ast.Return) or node.body[0].value is None:
            raise Refuse(f'{fn.name}: branch body is not a single return')
        out.append((names, node.body[0].value))
        if len(node.orelse) == 1 and isinstance(node.orelse[0], ast.If): node = node.orelse[0]; continue
        if len(node.orelse) == 1 and isinstance(node.orelse[0], ast.Raise) and 'ValueError' in ast.unparse(node.orelse[0]): break
        raise Refuse(f'{fn.name}: chain does not end in raise ValueError')
    return out

def _lookup(branches, name, who):
    for names, expr in branches:
        if name in names: return expr
    raise Refuse(f'{who}: no branch for {name!r}')

def _lit(src, node):
    """exact value of a numeric literal from its source text"""
    if isinstance(node.value, bool) or not isinstance(node.value, (int, float)): raise Refuse(f'literal {node.value!r}')
    text = ast.get_source_segment(src, node)
    try:
        q = Fraction(text.replace('_', ''))
    except Exception:
        raise Refuse(f'numeric literal {text!r}')
    if float(q) != float(node.value): raise Refuse(f'literal {text!r} read inexactly')
    return q

def lean_q(q):
    """a rational as a Lean term over any K with NatCast/Div/Neg"""
    s = f'((({abs(q.numerator)} : Nat) : K)' + (f' / (({q.denominator} : Nat) : K))' if q.denominator != 1 else ')')
    return f'(-{s})' if q < 0 else s

def _expr(src, e, vars_):
    if isinstance(e, ast.Constant): return lean_q(_lit(src, e))
    if isinstance(e, ast.Name):
        if e.id in vars_: return e.id
        raise Refuse(f'name {e.id}')
    if isinstance(e, ast.BinOp):
        op = {ast.Mult: '*', ast.Div: '/', ast.Add: '+', ast.Sub: '-'}.get(type(e.op))
        if op is None: raise Refuse(f'operator {type(e.op).__name__}')
        return f'({_expr(src, e.left, vars_)} {op} {_expr(src, e.right, vars_)})'
    raise Refuse(f'expression {ast.unparse(e)[:50]}')

# ------------------------------------------------------------------------------------------- straight-line numeric functions
class _FnTr:
    """translate a straight-line numeric function (planck_radiance, planck_exitance) into a Lean definition over any K:
    assignments of rational expressions in the parameters and the module constants H, C, K, `**` by a small natural literal,
    `np.exp(·)` (-> the uninterpreted `expf`), `np.pi` (-> `pi`), the unit-table calls `Unit(waveunit).to('meter')`,
    `Meter().to(waveunit)`, `<FluxClass>().to(flux, valueunit, wave)`, and one final `if valueunit == 'lit': return … else: return …`"""
    def __init__(self, src, cls_of, wunits, funits, aliases):
        self.src, self.cls_of, self.W, self.F, self.aliases = src, cls_of, wunits, funits, aliases
        self.unit_of_cls = {c: u for u, c in cls_of.items()}

    def wname(self, lit):
        for u in self.W:
            if lit in self.aliases[u]: return u
        raise Refuse(f'wave unit literal {lit!r}')

    def expr(self, e, env):
        if isinstance(e, ast.Constant): return lean_q(_lit(self.src, e))
        if isinstance(e, ast.Name):
            if e.id in env: return env[e.id]
            raise Refuse(f'name {e.id}')
        if isinstance(e, ast.Attribute) and ast.unparse(e) == 'np.pi': return 'pi'
        if isinstance(e, ast.BinOp):
            if isinstance(e.op, ast.Pow):
                if not (isinstance(e.right, ast.Constant) and isinstance(e.right.value, int) and 1 <= e.right.value <= 8): raise Refuse('power by a non-literal')
                b = self.expr(e.left, env)
                return '(' + ' * '.join([b] * e.right.value) + ')'
            op = {ast.Mult: '*', ast.Div: '/', ast.Add: '+', ast.Sub: '-'}.get(type(e.op))
            if op is None: raise Refuse(f'operator {type(e.op).__name__}')
            return f'({self.expr(e.left, env)} {op} {self.expr(e.right, env)})'
        if isinstance(e, ast.Call):
            f = ast.unparse(e.func)
            if f == 'np.exp' and len(e.args) == 1 and not e.keywords: return f'(expf {self.expr(e.args[0], env)})'
            # Unit(waveunit).to('meter')  /  Meter().to(waveunit)
            if isinstance(e.func, ast.Attribute) and e.func.attr == 'to' and isinstance(e.func.value, ast.Call) and not e.keywords:
                inner = e.func.value
                who = ast.unparse(inner.func)
                if who == 'Unit' and len(inner.args) == 1 and ast.unparse(inner.args[0]) == 'waveunit' and len(e.args) == 1 and isinstance(e.args[0], ast.Constant):
                    return f'(waveTo wu .{self.wname(e.args[0].value)})'
                if who in self.unit_of_cls and not inner.args:
                    u = self.unit_of_cls[who]
                    if u in self.W and len(e.args) == 1 and ast.unparse(e.args[0]) == 'waveunit': return f'(waveTo .{u} wu)'
                    if u in self.F and len(e.args) == 3 and ast.unparse(e.args[1]) == 'valueunit':
                        return f'(fluxTo .{u} vu {self.expr(e.args[0], env)} {self.expr(e.args[2], env)} H C)'
            raise Refuse(f'call {ast.unparse(e)[:60]}')
        raise Refuse(f'expression {ast.unparse(e)[:60]}')

    def fn(self, node, lean_name):
        a = node.args
        if [x.arg for x in a.args] != ['wave', 'temp', 'waveunit', 'valueunit']: raise Refuse(f'{node.name}: signature')
        env = {'wave': 'wave', 'temp': 'temp', 'H': 'H', 'C': 'C', 'K': 'kB'}
        lines, k = [], 0
        body = [st for st in node.body if not (isinstance(st, ast.Expr) and isinstance(st.value, ast.Constant))]
        for st in body[:-1]:
            if not (isinstance(st, ast.Assign) and len(st.targets) == 1 and isinstance(st.targets[0], ast.Name)): raise Refuse(f'{node.name}: statement {ast.unparse(st)[:60]}')
            k += 1
            v = f'{st.targets[0].id}_{k}'
            lines.append(f'  let {v} := {self.expr(st.value, env)}')
            env = dict(env, **{st.targets[0].id: v})
        last = body[-1]
        if not (isinstance(last, ast.If) and isinstance(last.test, ast.Compare) and ast.unparse(last.test.left) == 'valueunit' and isinstance(last.test.ops[0], ast.Eq)
                and isinstance(last.test.comparators[0], ast.Constant) and last.test.comparators[0].value in self.F
                and len(last.body) == 1 and isinstance(last.body[0], ast.Return) and len(last.orelse) == 1 and isinstance(last.orelse[0], ast.Return)):
            raise Refuse(f'{node.name}: final valueunit split')
        u = last.test.comparators[0].value
        lines.append('  match vu with')
        lines.append(f'  | .{u} => {self.expr(last.body[0].value, env)}')
        lines.append(f'  | _ => {self.expr(last.orelse[0].value, env)}')
        head = (f'def {lean_name} {{K : Type}} [NatCast K] [Mul K] [Div K] [Add K] [Sub K] (expf : K → K) (pi H C kB : K)\n'
                f'    (wave temp : K) (wu : WUnit) (vu : FUnit) : K :=')
        return head + '\n' + '\n'.join(lines)

def generate(repo):
    path = os.path.join(repo, SRC)
    src = open(path).read()
    tree = ast.parse(src)
    classes = {n.name: n for n in tree.body if isinstance(n, ast.ClassDef)}
    funcs = {n.name: n for n in tree.body if isinstance(n, ast.FunctionDef)}
    consts = {}
    for n in tree.body:
        if isinstance(n, ast.Assign) and len(n.targets) == 1 and isinstance(n.targets[0], ast.Name) and n.targets[0].id in ('H', 'C', 'K'):
            if not isinstance(n.value, ast.Constant): raise Refuse(f'{n.targets[0].id} is not a literal')
            consts[n.targets[0].id] = _lit(src, n.value)
    if set(consts) != {'H', 'C', 'K'}: raise Refuse('module constants H, C, K not found')
    # the unit names Spectrum.to dispatches on
    sp = classes.get('Spectrum')
    to = [n for n in sp.body if isinstance(n, ast.FunctionDef) and n.name == 'to'] if sp else []
    if not to: raise Refuse('Spectrum.to not found')
    lists = [ast.literal_eval(c.comparators[0]) for c in ast.walk(to[0])
             if isinstance(c, ast.Compare) and ast.unparse(c.left) == 'unit.lower()' and isinstance(c.ops[0], ast.In)]
    if len(lists) != 2: raise Refuse('Spectrum.to: unit lists')
    wunits, funits = lists
    if wunits != ['m', 'um', 'nm', 'angstrom'] or funits != ['photlam', 'flam', 'wlam']: raise Refuse(f'unit names changed: {wunits} {funits}')
    # Unit(name): name -> class
    ufn = funcs.get('Unit')
    if ufn is None: raise Refuse('Unit() not found')
    outer = [s for s in ufn.body if isinstance(s, ast.If)]
    if len(outer) != 1 or ast.unparse(outer[0].test) != 'name is not None': raise Refuse('Unit(): outer test')
    class _W: pass
    fake = ast.FunctionDef(name='Unit', body=outer[0].body, args=None)
    ub = _branches(fake, 'name')
    cls_of, aliases = {}, {}
    for u in wunits + funits:
        e = _lookup(ub, u, 'Unit')
        if not (isinstance(e, ast.Call) and isinstance(e.func, ast.Name) and e.func.id in classes and not e.args): raise Refuse(f'Unit({u!r})')
        cls_of[u] = e.func.id
        aliases[u] = sorted(set().union(*[names for names, ex in ub if ast.unparse(ex) == ast.unparse(e)]))
    for u, c in cls_of.items():
        nm = [s for s in classes[c].body if isinstance(s, ast.Assign) and ast.unparse(s.targets[0]) == 'name']
        if not nm or ast.literal_eval(nm[0].value) != u: raise Refuse(f'{c}.name != {u!r}')
    def method(c, name):
        m = [n for n in classes[c].body if isinstance(n, ast.FunctionDef) and n.name == name]
        if not m or not any(ast.unparse(d) == 'staticmethod' for d in m[0].decorator_list): raise Refuse(f'{c}.{name} (staticmethod) not found')
        return m[0]
    wave = {}
    for a in wunits:
        f = method(cls_of[a], 'to')
        if [x.arg for x in f.args.args] != ['waveunit']: raise Refuse(f'{cls_of[a]}.to signature')
        br = _branches(f, 'waveunit')
        for b in wunits:
            e = _lookup(br, b, cls_of[a] + '.to')
            if not isinstance(e, ast.Constant): raise Refuse(f'{cls_of[a]}.to({b!r}) is not a literal')
            wave[(a, b)] = _lit(src, e)
            # every alias of b must take the same branch
            for al in aliases[b]:
                if ast.unparse(_lookup(br, al, cls_of[a] + '.to')) != ast.unparse(e): raise Refuse(f'{cls_of[a]}.to: alias {al!r} of {b!r} differs')
    flux = {}
    for a in funits:
        f = method(cls_of[a], 'to')
        if [x.arg for x in f.args.args] != ['flux', 'fluxunit', 'wave']: raise Refuse(f'{cls_of[a]}.to signature')
        br = _branches(f, 'fluxunit')
        for b in funits:
            flux[(a, b)] = _expr(src, _lookup(br, b, cls_of[a] + '.to'), ('flux', 'wave', 'H', 'C'))
    L = []
    A = L.append
    A('inductive WUnit where\n' + '\n'.join(f'  | {u}' for u in wunits) + '\nderiving DecidableEq, Repr\n')
    A('inductive FUnit where\n' + '\n'.join(f'  | {u}' for u in funits) + '\nderiving DecidableEq, Repr\n')
    for ty, names in (('WUnit', wunits), ('FUnit', funits)):
        A(f'def {ty}.all : List {ty} := [' + ', '.join('.' + u for u in names) + ']')
        A(f'def {ty}.name : {ty} → String\n' + '\n'.join(f'  | .{n} => "{n}"' for n in names))
        A(f'def {ty}.ofName? : String → Option {ty}\n' + '\n'.join(f'  | "{n}" => some .{n}' for n in names) + '\n  | _ => none')
    A('\n/-- `<unit a>.to(b)`: the factor that takes a wavelength expressed in `a` to one expressed in `b` -/')
    A('def waveTo {K : Type} [NatCast K] [Div K] : WUnit → WUnit → K\n' + '\n'.join(
        f'  | .{a}, .{b} => {lean_q(wave[(a, b)])}' for a in wunits for b in wunits))
    A('\n/-- `<flux unit a>.to(flux, b, wave)` with `wave` in metres; `H`, `C` are the module constants (kept symbolic) -/')
    A('def fluxTo {K : Type} [NatCast K] [Mul K] [Div K] [Add K] [Sub K] (a b : FUnit) (flux wave H C : K) : K :=\n  match a, b with\n' + '\n'.join(
        f'  | .{a}, .{b} => {flux[(a, b)]}' for a in funits for b in funits))
    A('\n/-- module constants `H`, `C`, `K` of lentil/radiometry.py as exact rationals of their decimal literals -/')
    for k in ('H', 'C', 'K'):
        A(f'def const{k} {{K : Type}} [NatCast K] [Div K] : K := {lean_q(consts[k])}')
    # ---- Spectrum.to: what each kind of argument does to one (wavelength, value) sample
    to_fn = to[0]
    loops = [st for st in to_fn.body if isinstance(st, ast.For)]
    if len(loops) != 1 or ast.unparse(loops[0].target) != 'unit' or ast.unparse(loops[0].iter) != 'args': raise Refuse('Spectrum.to: `for unit in args` not found')
    top = [st for st in loops[0].body if isinstance(st, ast.If)]
    if len(top) != 1: raise Refuse('Spectrum.to: dispatch')
    wbr, rest = top[0], top[0].orelse
    if len(rest) != 1 or not isinstance(rest[0], ast.If): raise Refuse('Spectrum.to: flux branch')
    fbr = rest[0]
    if not (len(fbr.orelse) == 1 and isinstance(fbr.orelse[0], ast.Raise) and 'ValueError' in ast.unparse(fbr.orelse[0])): raise Refuse('Spectrum.to: unknown-unit arm')
    def sexpr(e, env):
        key = ast.unparse(e)
        if key in env: return env[key]
        if isinstance(e, ast.BinOp):
            op = {ast.Mult: '*', ast.Div: '/', ast.Add: '+', ast.Sub: '-'}.get(type(e.op))
            if op is None: raise Refuse(f'Spectrum.to: operator {type(e.op).__name__}')
            return f'({sexpr(e.left, env)} {op} {sexpr(e.right, env)})'
        raise Refuse(f'Spectrum.to: expression {key[:60]}')
    def assigns(stmts):
        out = {}
        for st in stmts:
            if isinstance(st, ast.Assign) and len(st.targets) == 1: out.setdefault(ast.unparse(st.targets[0]), st.value)
            elif isinstance(st, ast.Expr) and isinstance(st.value, ast.Constant): pass
            else: raise Refuse(f'Spectrum.to: statement {ast.unparse(st)[:60]}')
        return out
    inner = [st for st in wbr.body if isinstance(st, ast.If)]
    if len(inner) != 1 or ast.unparse(inner[0].test) != "self.valueunit in ['photlam', 'flam', 'wlam']": raise Refuse('Spectrum.to: density test')
    dens = assigns(inner[0].body)
    if len(inner[0].orelse) != 1 or not isinstance(inner[0].orelse[0], ast.If) or ast.unparse(inner[0].orelse[0].test) != 'self.valueunit is None': raise Refuse('Spectrum.to: unitless test')
    unitless = assigns(inner[0].orelse[0].body)
    if set(dens) != {'self.wave', 'self.value'} or set(unitless) != {'self.wave'}: raise Refuse(f'Spectrum.to: assignments {sorted(dens)} / {sorted(unitless)}')
    envw = {'self.wave': 'w', 'self.value': 'v', 'self._waveunit.to(unit)': 'k'}
    A('\n/-- `Spectrum.to(<wave unit>)`, per sample, k = `self._waveunit.to(unit)`: density spectrum -/')
    def stepdef(name, body):
        used = [x for x in ('w', 'v', 'k') if re.search(r'(?<![A-Za-z_])' + x + r'(?![A-Za-z_0-9])', body)]
        return f"def {name} ({' '.join(used)} : Rat) : Rat := {body}"
    A(stepdef('toStepWaveDensity', sexpr(dens['self.wave'], envw)))
    A(stepdef('toStepValueDensity', sexpr(dens['self.value'], envw)))
    A('/-- … unitless spectrum (no assignment to `self.value` in that arm) -/')
    A(stepdef('toStepWaveUnitless', sexpr(unitless['self.wave'], envw)))
    A('def toStepValueUnitless (v : Rat) : Rat := v')
    if not (isinstance(fbr.body[0], ast.If) and ast.unparse(fbr.body[0].test) == 'self.valueunit is None' and isinstance(fbr.body[0].body[0], ast.Raise) and 'TypeError' in ast.unparse(fbr.body[0].body[0])):
        raise Refuse('Spectrum.to: TypeError arm for a unitless spectrum')
    fl = assigns(fbr.body[0].orelse)
    if list(fl) != ['wave', 'value', 'self.value', 'self.valueunit']: raise Refuse(f'Spectrum.to: flux arm {list(fl)}')
    envf = {'self.wave': 'w', 'self.value': 'v', "self._waveunit.to('meter')": 'km'}
    wv, vv = sexpr(fl['wave'], envf), sexpr(fl['value'], envf)
    res = fl['self.value']
    if not (isinstance(res, ast.BinOp) and isinstance(res.op, ast.Div) and ast.unparse(res.left) == 'self._valueunit.to(value, unit, wave)' and ast.unparse(res.right) == 'Meter().to(self.waveunit)'):
        raise Refuse('Spectrum.to: flux conversion expression')
    A('\n/-- `Spectrum.to(<flux unit>)`, per sample: km = `self._waveunit.to(\'meter\')`, back = `Meter().to(self.waveunit)` -/')
    A(f'def toStepFlux (f g : FUnit) (w v km back H C : Rat) : Rat :=\n  let wave := {wv}\n  let value := {vv}\n  (fluxTo f g value wave H C) / back')
    tr = _FnTr(src, cls_of, wunits, funits, aliases)
    tr0 = tr
    A('\n/-- translated from `planck_radiance` (its own source lines; `np.exp` -> `expf`, `np.pi` -> `pi`, unit calls -> the tables above) -/')
    A(tr.fn(funcs['planck_radiance'], 'planckRadiance'))
    A('\n/-- translated from `planck_exitance` (its own source lines) -/')
    A(tr.fn(funcs['planck_exitance'], 'planckExitance'))
    # ---- vegaflux: the zero-point table and the conversion steps
    vf = funcs.get('vegaflux')
    if vf is None: raise Refuse('vegaflux not found')
    vbody = [st for st in vf.body if not (isinstance(st, ast.Expr) and isinstance(st.value, ast.Constant))]
    if not (isinstance(vbody[0], ast.Assign) and ast.unparse(vbody[0].targets[0]) == 'vega' and isinstance(vbody[0].value, ast.Dict)): raise Refuse('vegaflux: table')
    table = {}
    for k_, v_ in zip(vbody[0].value.keys, vbody[0].value.values):
        if not (isinstance(k_, ast.Constant) and isinstance(v_, ast.Dict)): raise Refuse('vegaflux: table entry')
        ent = {ast.literal_eval(a): b for a, b in zip(v_.keys, v_.values)}
        if set(ent) != {'wave', 'flux'} or not all(isinstance(b, ast.Constant) for b in ent.values()): raise Refuse('vegaflux: table entry fields')
        table[k_.value] = (_lit(src, ent['wave']), _lit(src, ent['flux']))
    rest = vbody[1:]
    expect_head = ['band = band.upper()', None, "wave = vega[band]['wave']", "flux = vega[band]['flux']"]
    for st, ex in zip(rest[:4], expect_head):
        if ex is not None and ast.unparse(st) != ex: raise Refuse(f'vegaflux: statement {ast.unparse(st)[:50]}')
    if not (isinstance(rest[1], ast.If) and ast.unparse(rest[1].test) == 'band not in vega' and isinstance(rest[1].body[0], ast.Raise)): raise Refuse('vegaflux: unknown-band guard')
    env = {'wave': 'wave_0', 'flux': 'flux_0', 'H': 'H', 'C': 'C'}
    lines = ['  let wave_0 : K := vegaWave band', '  let flux_0 : K := vegaJy band']
    k = 0
    i = 4
    while i < len(rest) and isinstance(rest[i], ast.Assign):
        st = rest[i]; k += 1
        nm = ast.unparse(st.targets[0])
        if nm not in ('flux', 'wave'): raise Refuse(f'vegaflux: assignment to {nm}')
        lines.append(f'  let {nm}_{k} : K := {tr0.expr(st.value, env)}')
        env = dict(env, **{nm: f'{nm}_{k}'})
        i += 1
    sp = rest[i]
    if not (isinstance(sp, ast.If) and ast.unparse(sp.test) == "valueunit == 'photlam'" and len(sp.body) == 1 and len(sp.orelse) == 1
            and all(isinstance(x, ast.Assign) and ast.unparse(x.targets[0]) == 'flux' for x in (sp.body[0], sp.orelse[0]))): raise Refuse('vegaflux: valueunit split')
    lines.append(f'  let flux_f : K := match vu with\n    | .photlam => {tr0.expr(sp.body[0].value, env)}\n    | _ => {tr0.expr(sp.orelse[0].value, env)}')
    tail = rest[i + 1:]
    if len(tail) != 2 or ast.unparse(tail[1]) != 'return (flux, wave)' or ast.unparse(tail[0].targets[0]) != 'wave': raise Refuse('vegaflux: tail')
    lines.append(f'  let wave_f : K := {tr0.expr(tail[0].value, env)}')
    lines.append('  (flux_f, wave_f)')
    bands = list(table)
    A('\n/-- observing bands of `vegaflux` -/')
    A('inductive Band where\n' + '\n'.join(f'  | {b}' for b in bands) + '\nderiving DecidableEq, Repr')
    A('def Band.all : List Band := [' + ', '.join('.' + b for b in bands) + ']')
    A('def Band.ofName? : String → Option Band\n' + '\n'.join(f'  | "{b}" => some .{b}' for b in bands) + '\n  | _ => none')
    A('/-- central wavelength (m) and zero-point flux (Jy) of Vega per band: the literals of the source table -/')
    A('def vegaWave {K : Type} [NatCast K] [Div K] : Band → K\n' + '\n'.join(f'  | .{b} => {lean_q(table[b][0])}' for b in bands))
    A('def vegaJy {K : Type} [NatCast K] [Div K] : Band → K\n' + '\n'.join(f'  | .{b} => {lean_q(table[b][1])}' for b in bands))
    A('/-- `vegaflux(band, waveunit, valueunit)` = (flux, wavelength): its own source lines -/')
    A('def vegaflux {K : Type} [NatCast K] [Mul K] [Div K] [Add K] [Sub K] (H C : K) (band : Band) (wu : WUnit) (vu : FUnit) : K × K :=\n' + '\n'.join(lines))
    notes = {'wave': {f'{a}->{b}': str(q) for (a, b), q in wave.items()}, 'aliases': aliases,
             'constants': {k: str(v) for k, v in consts.items()}}
    # ---- Unit(name): the name -> class dispatch (lower-cased names of every branch), as the `name` attribute of the class returned
    if ast.unparse(ufn.body[-1] if not isinstance(ufn.body[-1], ast.If) else outer[0].orelse[0]) != 'return None': raise Refuse('Unit(None) does not return None')
    def _cls_name(c):
        nm = [s_ for s_ in classes[c].body if isinstance(s_, ast.Assign) and ast.unparse(s_.targets[0]) == 'name']
        if len(nm) != 1: raise Refuse(f'{c}.name')
        return ast.literal_eval(nm[0].value)
    table = []
    for names_, ex in ub:
        if names_ is None: continue
        if not (isinstance(ex, ast.Call) and isinstance(ex.func, ast.Name) and ex.func.id in classes and not ex.args and not ex.keywords):
            raise Refuse(f'Unit(): branch {sorted(names_)} does not return a unit class instance')
        for n_ in sorted(names_):
            if n_ != n_.lower(): raise Refuse(f'Unit(): name {n_!r} can never match name.lower()')
            if any(n_ == t[0] for t in table): raise Refuse(f'Unit(): name {n_!r} in two branches')
            table.append((n_, _cls_name(ex.func.id)))
    A('\n/-- `Unit(name)`: every name the if-chain accepts (compared with `name.lower()`) ↦ the `name` attribute of the class of the object returned; anything else is a ValueError -/')
    A('def unitOfName : String → Option String')
    for n_, c_ in table: A(f'  | "{n_}" => some "{c_}"')
    A('  | _ => none')
    A('def unitNames : List String := [' + ', '.join(f'"{n_}"' for n_, _ in table) + ']')
    # ---- the unit a spectrum REPORTS: `waveunit`/`valueunit` setters store Unit(<name>), getters return its `.name` (None for None)
    spc = classes.get('Spectrum')
    for attr in ('waveunit', 'valueunit'):
        fs = [n for n in spc.body if isinstance(n, ast.FunctionDef) and n.name == attr]
        get = [f for f in fs if any(ast.unparse(d) == 'property' for d in f.decorator_list)]
        st_ = [f for f in fs if any(ast.unparse(d) == f'{attr}.setter' for d in f.decorator_list)]
        if len(get) != 1 or len(st_) != 1: raise Refuse(f'Spectrum.{attr}: property/setter')
        gb = [x for x in get[0].body if not (isinstance(x, ast.Expr) and isinstance(x.value, ast.Constant))]
        if not (len(gb) == 1 and isinstance(gb[0], ast.If) and ast.unparse(gb[0].test) == f'self._{attr} is not None' and ast.unparse(gb[0].body[0]) == f'return self._{attr}.name'
                and len(gb[0].orelse) == 1 and ast.unparse(gb[0].orelse[0]) == 'return None'): raise Refuse(f'Spectrum.{attr} getter')
        sb = [x for x in st_[0].body if not (isinstance(x, ast.Expr) and isinstance(x.value, ast.Constant))]
        if [a_.arg for a_ in st_[0].args.args] != ['self', attr] or len(sb) != 1 or ast.unparse(sb[0]) != f'self._{attr} = Unit({attr})': raise Refuse(f'Spectrum.{attr} setter')
    A('\n/-- the unit name a spectrum built with / assigned the name `n` reports (`waveunit`, `valueunit` properties: `Unit(n).name`; argument: `n.lower()`) -/')
    A('def reportedUnit (lowered : String) : Option String := unitOfName lowered')
    A('/-- the names `Spectrum.to` dispatches on (`unit.lower() in […]`): wavelength targets, flux targets -/')
    A('def toWaveNames : List String := [' + ', '.join(f'"{u}"' for u in wunits) + ']')
    A('def toFluxNames : List String := [' + ', '.join(f'"{u}"' for u in funits) + ']')
    return '\n'.join(L) + '\n', notes

MODULES = [{'name': 'Units', 'src': SRC, 'generator': generate, 'props': ['C14', 'C13']}]
