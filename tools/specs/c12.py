"""C12 — translator spec: the call structure of zernike_compose / zernike_basis / zernike_fit / zernike_remove.

What is regenerated: `Gen.composeNoll`, the map from the 0-based position of a coefficient in `zernike_compose` to the Noll index of
the mode it multiplies (`index[0] + 1`).  What is checked structurally on the AST (by binding call arguments to the callee's
parameter names, so positional/keyword style, variable names of temporaries and statement order do not matter) and refused otherwise:
  * zernike_compose: one loop over np.ndenumerate(coeffs) accumulating coeff * zernike(mask, <index expr>, normalize, rho, theta);
  * zernike_basis: one loop over np.ndenumerate(modes) storing zernike(mask, mode, normalize, rho, theta) at the loop position, and the
    vectorised return reshaping to (number of modes, -1);
  * zernike_fit: basis = zernike_basis(mask, modes, vectorize=True, normalize, rho, theta); pinv of it; the OPD restricted to the mask support (`np.where(mask != 0, opd, 0)` -> Gen.fitSelect); einsum(<subscripts>, pinv, opd.ravel(order=...)) — the subscripts become the definition Gen.fitContract, the flattening order Gen.ravelIndex;
  * zernike_remove: the fit and the basis are requested with the same (mask, modes, rho, theta) and the library-default normalisation, and
    the residual is opd - einsum('ijk,i->jk', basis, coeffs)."""
import ast, os
from py2lean import Refuse

def _fn(mod, name):
    for n in mod.body:
        if isinstance(n, ast.FunctionDef) and n.name == name: return n
    raise Refuse(f'{name} not found')

def _params(fn):
    a = fn.args
    names = [x.arg for x in a.args]
    defaults = {n: ast.unparse(d) for n, d in zip(names[len(names) - len(a.defaults):], a.defaults)}
    return names, defaults

def _bind(call, fn):
    """argument binding of `call` against the signature of `fn`: {param: source text}, defaults filled in"""
    names, defaults = _params(fn)
    out = dict(defaults)
    if len(call.args) > len(names): raise Refuse('too many positional arguments')
    for n, a in zip(names, call.args):
        if isinstance(a, ast.Starred): raise Refuse('starred argument')
        out[n] = ast.unparse(a)
    for kw in call.keywords:
        if kw.arg is None or kw.arg not in names: raise Refuse(f'keyword {kw.arg}')
        out[kw.arg] = ast.unparse(kw.value)
    return out

def _calls(node, fname):
    return [n for n in ast.walk(node) if isinstance(n, ast.Call) and ast.unparse(n.func).split('.')[-1] == fname]

def _one(xs, what):
    if len(xs) != 1: raise Refuse(f'{what}: expected exactly one, found {len(xs)}')
    return xs[0]

def _index_expr(src_expr, loopvar):
    """translate `loopvar[0] + c` (c a non-negative int literal) to a Lean Int expression in `i`"""
    e = ast.parse(src_expr, mode='eval').body
    def tr(x):
        if isinstance(x, ast.Subscript) and ast.unparse(x.value) == loopvar and ast.unparse(x.slice) == '0': return 'i'
        if isinstance(x, ast.Constant) and isinstance(x.value, int) and not isinstance(x.value, bool): return f'({x.value} : Int)'
        if isinstance(x, ast.BinOp) and isinstance(x.op, (ast.Add, ast.Sub)):
            return f"({tr(x.left)} {'+' if isinstance(x.op, ast.Add) else '-'} {tr(x.right)})"
        raise Refuse(f'compose index expression {src_expr!r}')
    return tr(e)

def _einsum_def(name, subs, doc):
    """`np.einsum('<a>,<b>-><out>', A, v)` with a 1-D second operand whose index is contracted and sits first or last in the first operand:
    a Lean contraction, generic in the type `S` of the remaining (row-major) output indices and in the summation"""
    subs = subs.replace(' ', '')
    try:
        ins, out = subs.split('->'); a, b = ins.split(',')
    except ValueError: raise Refuse(f'{name}: einsum subscripts {subs!r}')
    if len(b) != 1 or a.count(b) != 1 or b in out or out != a.replace(b, '') or len(set(a)) != len(a):
        raise Refuse(f'{name}: einsum {subs!r} is not the contraction of one index of the first operand with a vector')
    pos = a.index(b)
    if pos == 0: ty, app = 'Nat → S → K', 'a i s'
    elif pos == len(a) - 1: ty, app = 'S → Nat → K', 'a s i'
    else: raise Refuse(f'{name}: einsum {subs!r} contracts an inner index')
    return (f'/-- {doc}: `einsum({subs!r}, a, b)` — `{b}` is summed, `s` stands for the remaining indices `{out}` -/\n'
            f'def {name} {{K S : Type}} [Mul K] (sum : Nat → (Nat → K) → K) (n : Nat) (a : {ty}) (b : Nat → K) (s : S) : K :=\n'
            f'  sum n fun i => {app} * b i\n')

def _order_def(name, order, doc):
    """flat sample number of array element (r, c) of an (nr, nc) array"""
    if order == 'C': body, extra = 'r * nc + c', ''
    elif order == 'F': body, extra = 'c * nr + r', ''
    else: body, extra = 'if memoryIsFortran then c * nr + r else r * nc + c', ' (memoryIsFortran : Bool)'      # 'K' / 'A': depends on the memory layout
    return f'/-- {doc} (order {order!r}) -/\ndef {name}{extra} (nr nc r c : Nat) : Nat := {body}\n'

def _order_of(call, what):
    if call.args and not (what == 'reshape'): raise Refuse(f'{what}: positional order argument')
    o = 'C'
    for k in call.keywords:
        if k.arg != 'order': raise Refuse(f'{what}: keyword {k.arg}')
        o = ast.literal_eval(k.value)
    if o not in ('C', 'F', 'K', 'A'): raise Refuse(f'{what}: order {o!r}')
    return o

def _generator(repo):
    mod = ast.parse(open(os.path.join(repo, 'lentil/zernike.py')).read())
    Z, ZB, ZF, ZC, ZR = (_fn(mod, n) for n in ('zernike', 'zernike_basis', 'zernike_fit', 'zernike_compose', 'zernike_remove'))
    notes = []
    # ---- zernike_compose
    loop = _one([n for n in ast.walk(ZC) if isinstance(n, ast.For)], 'zernike_compose loop')
    if ast.unparse(loop.iter).replace(' ', '') != 'np.ndenumerate(coeffs)' or not isinstance(loop.target, ast.Tuple) or len(loop.target.elts) != 2:
        raise Refuse('zernike_compose: loop is not `for index, coeff in np.ndenumerate(coeffs)`')
    ivar, cvar = (ast.unparse(x) for x in loop.target.elts)
    acc = _one([n for n in ast.walk(loop) if isinstance(n, ast.AugAssign)], 'zernike_compose accumulation')
    if not isinstance(acc.op, ast.Add) or not isinstance(acc.value, ast.BinOp) or not isinstance(acc.value.op, ast.Mult):
        raise Refuse('zernike_compose: accumulation is not `opd += coeff * zernike(...)`')
    sides = [acc.value.left, acc.value.right]
    call = _one([s for s in sides if isinstance(s, ast.Call)], 'zernike_compose: zernike call')
    other = _one([s for s in sides if not isinstance(s, ast.Call)], 'zernike_compose: coefficient factor')
    if ast.unparse(other) != cvar or ast.unparse(call.func).split('.')[-1] != 'zernike': raise Refuse('zernike_compose: factors changed')
    b = _bind(call, Z)
    idx = b.pop('index')
    if b != {'mask': 'mask', 'normalize': 'normalize', 'rho': 'rho', 'theta': 'theta'}: raise Refuse(f'zernike_compose passes {b}')
    lean_idx = _index_expr(idx, ivar)
    notes.append(f'zernike_compose: coefficient at position i multiplies zernike(mask, {idx}, normalize, rho, theta)')
    # ---- zernike_basis
    loop = _one([n for n in ast.walk(ZB) if isinstance(n, ast.For)], 'zernike_basis loop')
    if ast.unparse(loop.iter).replace(' ', '') != 'np.ndenumerate(modes)' or not isinstance(loop.target, ast.Tuple) or len(loop.target.elts) != 2:
        raise Refuse('zernike_basis: loop is not `for index, mode in np.ndenumerate(modes)`')
    ivar, mvar = (ast.unparse(x) for x in loop.target.elts)
    st = _one([n for n in ast.walk(loop) if isinstance(n, ast.Assign)], 'zernike_basis store')
    if ast.unparse(st.targets[0]).replace(' ', '') != f'basis[{ivar}]' or not isinstance(st.value, ast.Call): raise Refuse('zernike_basis: store changed')
    b = _bind(st.value, Z)
    if ast.unparse(st.value.func).split('.')[-1] != 'zernike' or b != {'mask': 'mask', 'index': mvar, 'normalize': 'normalize', 'rho': 'rho', 'theta': 'theta'}:
        raise Refuse(f'zernike_basis passes {b}')
    rs = [n for n in ast.walk(ZB) if isinstance(n, ast.Call) and isinstance(n.func, ast.Attribute) and n.func.attr == 'reshape']
    r = _one(rs, 'zernike_basis reshape')
    if ast.unparse(r.func.value) != 'basis' or [ast.unparse(a).replace(' ', '') for a in r.args] != ['basis.shape[0]', '-1']:
        raise Refuse('zernike_basis: vectorised reshape changed')
    reshape_def = _order_def('reshapeIndex', _order_of(r, 'reshape'), '`zernike_basis(vectorize=True)`: the sample number of pixel (r, c) in `basis.reshape(k, -1)`')
    notes.append('zernike_basis: basis[position] = zernike(mask, mode at that position, normalize, rho, theta); vectorised as reshape(k, -1)')
    # ---- zernike_fit / zernike_remove: the call wiring becomes DEFINITIONS (projections of the caller's argument record)
    def field(src, caller):
        if src in caller: return f'a.{src}'
        if src == 'True': return 'true'
        if src == 'False': return 'false'
        raise Refuse(f'argument expression {src!r} is not a caller parameter or a Boolean literal')
    def record(binding, fields, caller):
        miss = [f for f in fields if f not in binding]
        if miss: raise Refuse(f'unbound parameters {miss}')
        return '{ ' + ', '.join(f'{f} := {field(binding[f], caller)}' for f in fields) + ' }'
    fit_params, _ = _params(ZF); rem_params, _ = _params(ZR)
    if fit_params != ['opd', 'mask', 'modes', 'normalize', 'rho', 'theta']: raise Refuse(f'zernike_fit signature {fit_params}')
    if rem_params != ['opd', 'mask', 'modes', 'rho', 'theta']: raise Refuse(f'zernike_remove signature {rem_params}')
    b = _bind(_one(_calls(ZF, 'zernike_basis'), 'zernike_fit: zernike_basis call'), ZB)
    fit_basis = record(b, ['mask', 'modes', 'vectorize', 'normalize', 'rho', 'theta'], fit_params)
    _one(_calls(ZF, 'pinv'), 'zernike_fit: pinv call')
    es = _one(_calls(ZF, 'einsum'), 'zernike_fit: einsum')
    if len(es.args) != 3 or es.keywords: raise Refuse('zernike_fit: einsum call changed')
    fit_contract = _einsum_def('fitContract', ast.literal_eval(es.args[0]), '`zernike_fit`: pinv(basis) contracted with the flattened OPD')
    rav = es.args[2]
    if not (isinstance(rav, ast.Call) and isinstance(rav.func, ast.Attribute) and rav.func.attr in ('ravel', 'flatten') and ast.unparse(rav.func.value) == 'opd'):
        raise Refuse('zernike_fit: the second einsum operand is not opd.ravel(): ' + ast.unparse(rav))
    # the statement that restricts the OPD to the mask support before the contraction: `opd = np.where(mask != 0, opd, 0)` -> Gen.fitSelect
    sel = [x for x in ZF.body if isinstance(x, ast.Assign) and ast.unparse(x.targets[0]) == 'opd' and isinstance(x.value, ast.Call) and ast.unparse(x.value.func) == 'np.where']
    if len(sel) > 1: raise Refuse('zernike_fit: more than one np.where on the OPD')
    if sel:
        w = sel[0].value
        if [ast.unparse(a) for a in w.args] not in (['mask != 0', 'opd', '0'], ['mask != 0', 'opd', '0.0']) or w.keywords:
            raise Refuse('zernike_fit: OPD selection ' + ast.unparse(sel[0]))
        if ZF.body.index(sel[0]) > max(i for i, x in enumerate(ZF.body) if any(isinstance(n, ast.Call) and ast.unparse(n.func).endswith('einsum') for n in ast.walk(x))):
            raise Refuse('zernike_fit: the OPD is selected after the contraction')
        select_def = ('/-- `zernike_fit`: `opd = np.where(mask != 0, opd, 0)` before the contraction — one sample; `mask` = the sample belongs to the support -/\n'
                      'def fitSelect {K : Type} [Zero K] (mask : Bool) (opd : K) : K := if mask then opd else 0\n')
    else:
        select_def = ('/-- `zernike_fit` contracts the OPD as given (no selection with the mask) -/\n'
                      'def fitSelect {K : Type} [Zero K] (mask : Bool) (opd : K) : K := opd\n')
    ravel_def = _order_def('ravelIndex', _order_of(rav, 'ravel'), '`zernike_fit`: the sample number of pixel (r, c) in `opd.ravel()`')
    notes.append("zernike_fit: einsum('ij,i->j', pinv(zernike_basis(<Gen.fitBasisArgs>)), opd.ravel())")
    _, zf_def = _params(ZF); _, zb_def = _params(ZB)
    bf = _bind(_one(_calls(ZR, 'zernike_fit'), 'zernike_remove: zernike_fit call'), ZF)
    bb = _bind(_one(_calls(ZR, 'zernike_basis'), 'zernike_remove: zernike_basis call'), ZB)
    rem_fit = record(bf, ['opd', 'mask', 'modes', 'normalize', 'rho', 'theta'], rem_params)
    rem_basis = record(bb, ['mask', 'modes', 'vectorize', 'normalize', 'rho', 'theta'], rem_params)
    es = _one(_calls(ZR, 'einsum'), 'zernike_remove: einsum')
    if len(es.args) != 3 or es.keywords: raise Refuse('zernike_remove: einsum call changed')
    rem_contract = _einsum_def('removeContract', ast.literal_eval(es.args[0]), '`zernike_remove`: the basis cube contracted with the fitted coefficients')
    # ---- zernike_remove: the data flow from the two calls through the einsum into the returned expression, translated
    rbody = [x for x in ZR.body if not (isinstance(x, ast.Expr) and isinstance(x.value, ast.Constant))]
    asg = {}
    for x in rbody[:-1]:
        if not (isinstance(x, ast.Assign) and len(x.targets) == 1 and isinstance(x.targets[0], ast.Name)): raise Refuse('zernike_remove: statement ' + ast.unparse(x)[:80])
        if x.targets[0].id in asg: raise Refuse('zernike_remove: a name is assigned twice: ' + x.targets[0].id)
        asg[x.targets[0].id] = x.value
    for nm in ('opd', 'mask'):
        if ast.unparse(asg.pop(nm, ast.Constant(0))).replace(' ', '') != f'np.asarray({nm})': raise Refuse(f'zernike_remove: `{nm} = np.asarray({nm})` not found')
    ops = [ast.unparse(a) for a in es.args[1:]]
    if not (all(o in asg for o in ops) and isinstance(asg[ops[0]], ast.Call) and ast.unparse(asg[ops[0]].func).split('.')[-1] == 'zernike_basis'
            and isinstance(asg[ops[1]], ast.Call) and ast.unparse(asg[ops[1]].func).split('.')[-1] == 'zernike_fit'):
        raise Refuse('zernike_remove: the einsum operands are not (the zernike_basis result, the zernike_fit result): ' + ', '.join(ops))
    fitname = [k_ for k_, v in asg.items() if v is es]
    if len(fitname) != 1: raise Refuse('zernike_remove: the einsum result is not assigned to a name')
    if not isinstance(rbody[-1], ast.Return) or rbody[-1].value is None: raise Refuse('zernike_remove: no final return')
    def _res(e, depth=0):
        if isinstance(e, ast.Name):
            if e.id == 'opd': return 'opd'
            if e.id == fitname[0]: return 'fit'
            if e.id in asg and e.id not in ops and depth < 4: return _res(asg[e.id], depth + 1)
        if isinstance(e, ast.BinOp) and type(e.op) in (ast.Add, ast.Sub):
            return f"({_res(e.left, depth)} {'+' if isinstance(e.op, ast.Add) else '-'} {_res(e.right, depth)})"
        if isinstance(e, ast.UnaryOp) and isinstance(e.op, ast.USub): return f'(-{_res(e.operand, depth)})'
        raise Refuse('zernike_remove: returned expression ' + ast.unparse(e))
    residual = _res(rbody[-1].value)
    used = set(ops) | set(fitname)
    for x in ast.walk(rbody[-1].value):
        if isinstance(x, ast.Name): used.add(x.id)
    changed = True
    while changed:
        changed = False
        for k_ in list(used):
            if k_ in asg:
                for x in ast.walk(asg[k_]):
                    if isinstance(x, ast.Name) and x.id in asg and x.id not in used: used.add(x.id); changed = True
    dead = [k_ for k_ in asg if k_ not in used]
    if dead: raise Refuse('zernike_remove: assignments that do not reach the result: ' + ', '.join(dead))
    residual_def = ('/-- `zernike_remove`: the returned expression, per sample, from the input `opd` and `fit` = the einsum of the basis with the fitted\n'
                    'coefficients (the assignments in between are substituted) -/\n'
                    f'def removeResidual {{K : Type}} [Add K] [Sub K] [Neg K] (opd fit : K) : K := {residual}\n')
    notes.append(f"zernike_remove: returns {residual} with fit = einsum('ijk,i->jk', zernike_basis(<Gen.removeBasisArgs>), zernike_fit(<Gen.removeFitArgs>)) — data flow and returned expression translated")
    lean = ('/-- `zernike_compose`: the Noll index multiplied by the coefficient at 0-based position `i` -/\n'
            f'def composeNoll (i : Int) : Int := {lean_idx}\n\n'
            '/-- argument record of `zernike_fit` (and, without `normalize`, of `zernike_remove`) -/\n'
            'structure FitArgs (O Mk Md C : Type) where\n  opd : O\n  mask : Mk\n  modes : Md\n  normalize : Bool\n  rho : C\n  theta : C\n\n'
            'structure RemoveArgs (O Mk Md C : Type) where\n  opd : O\n  mask : Mk\n  modes : Md\n  rho : C\n  theta : C\n\n'
            '/-- argument record of `zernike_basis` -/\n'
            'structure BasisArgs (Mk Md C : Type) where\n  mask : Mk\n  modes : Md\n  vectorize : Bool\n  normalize : Bool\n  rho : C\n  theta : C\n\n'
            '/-- `zernike_fit`: the arguments with which it requests its basis -/\n'
            f'def fitBasisArgs {{O Mk Md C : Type}} (a : FitArgs O Mk Md C) : BasisArgs Mk Md C :=\n  {fit_basis}\n\n'
            '/-- `zernike_remove`: the arguments of its `zernike_fit` call -/\n'
            f'def removeFitArgs {{O Mk Md C : Type}} (a : RemoveArgs O Mk Md C) : FitArgs O Mk Md C :=\n  {rem_fit}\n\n'
            '/-- `zernike_remove`: the arguments of its `zernike_basis` call -/\n'
            f'def removeBasisArgs {{O Mk Md C : Type}} (a : RemoveArgs O Mk Md C) : BasisArgs Mk Md C :=\n  {rem_basis}\n\n'
            + select_def + '\n' + fit_contract + '\n' + rem_contract + '\n' + residual_def + '\n' + ravel_def + '\n' + reshape_def)
    return lean, notes

MODULES = [{'name': 'ZernikeCalls', 'src': 'lentil/zernike.py', 'generator': _generator, 'props': ['C12']}]
