"""C18 — regenerated index bookkeeping of lentil.wfe.power_spectrum (tie 1).

The frequency grid, the filter and the noise array of `power_spectrum` must all have the (rows, cols) shape of the mask
and each axis must be normalised by its own length. This generator reads those index expressions off the source:
    n, m = mask.shape ; yy, xx = np.mgrid[0:n, 0:m] ; yy = (yy - (np.floor(n / 2) + 1)) / n ; xx = ... / m ; rng.normal(size=[n, m])
and emits them as Lean definitions over (rows, cols, i, j). Swapping n and m anywhere changes a definition and
`Props/C18.filter_shape_eq_mask_shape` / `frequency_grid_per_axis` stop checking. Anything else is refused."""
import ast, os
from py2lean import Refuse

def _axis_expr(node, env, var):
    """(VAR - (np.floor(A / 2) + 1)) / B  ->  (A', B') with A', B' in {'rows','cols'}"""
    src = ast.unparse(node)
    if not (isinstance(node, ast.BinOp) and isinstance(node.op, ast.Div) and isinstance(node.right, ast.Name)): raise Refuse(f'grid normalisation: {src}')
    B = node.right.id
    num = node.left
    if not (isinstance(num, ast.BinOp) and isinstance(num.op, ast.Sub) and isinstance(num.left, ast.Name) and num.left.id == var): raise Refuse(f'grid normalisation: {src}')
    c = num.right
    ok = (isinstance(c, ast.BinOp) and isinstance(c.op, ast.Add) and isinstance(c.right, ast.Constant) and c.right.value == 1
          and isinstance(c.left, ast.Call) and ast.unparse(c.left.func) in ('np.floor', 'numpy.floor') and len(c.left.args) == 1)
    if not ok: raise Refuse(f'grid centre: {src}')
    d = c.left.args[0]
    if not (isinstance(d, ast.BinOp) and isinstance(d.op, ast.Div) and isinstance(d.left, ast.Name) and isinstance(d.right, ast.Constant) and d.right.value == 2):
        raise Refuse(f'grid centre: {src}')
    A = d.left.id
    if A not in env or B not in env: raise Refuse(f'grid uses unknown size {A}, {B}')
    return env[A], env[B]

def generator(repo):
    src = os.path.join(repo, 'lentil', 'wfe.py')
    tree = ast.parse(open(src).read())
    fn = [n for n in tree.body if isinstance(n, ast.FunctionDef) and n.name == 'power_spectrum']
    if not fn: raise Refuse('power_spectrum not found')
    env, grid, axes, noise, idx = {}, None, {}, None, {}
    recognised, noise_var = set(), None
    for st in fn[0].body:
        if not isinstance(st, ast.Assign) or len(st.targets) != 1: continue
        t, v = st.targets[0], st.value
        if isinstance(t, ast.Tuple) and ast.unparse(v) == 'mask.shape':
            names = [e.id for e in t.elts]
            if len(names) != 2: raise Refuse('mask.shape unpacking')
            env = {names[0]: 'rows', names[1]: 'cols'}; recognised.add(id(st))
        elif isinstance(t, ast.Tuple) and isinstance(v, ast.Subscript) and ast.unparse(v.value) in ('np.mgrid', 'numpy.mgrid'):
            sl = v.slice.elts if isinstance(v.slice, ast.Tuple) else None
            if not sl or len(sl) != 2 or not all(isinstance(s, ast.Slice) and ast.unparse(s.lower) == '0' and isinstance(s.upper, ast.Name) for s in sl):
                raise Refuse(f'mgrid: {ast.unparse(v)}')
            grid = (env[sl[0].upper.id], env[sl[1].upper.id])
            idx = {t.elts[0].id: 'i', t.elts[1].id: 'j'}          # first output varies along axis 0
            recognised.add(id(st))
        elif isinstance(t, ast.Name) and t.id in idx and t.id not in axes:
            axes[t.id] = _axis_expr(v, env, t.id); recognised.add(id(st))
        elif isinstance(t, ast.Name) and isinstance(v, ast.Call) and ast.unparse(v.func).endswith('.normal'):
            kw = {k.arg: k.value for k in v.keywords}
            if 'size' not in kw or not isinstance(kw['size'], (ast.List, ast.Tuple)) or len(kw['size'].elts) != 2: raise Refuse('noise size')
            noise = tuple(env[e.id] for e in kw['size'].elts); noise_var = t.id; recognised.add(id(st))
    if grid is None or noise is None or len(axes) != 2: raise Refuse('power_spectrum: grid / noise statements not found')
    # every other statement that (re)binds or writes a size, a grid variable or the noise array is outside the understood form
    tracked = set(env) | set(idx) | {noise_var}
    for st in ast.walk(fn[0]):
        if not isinstance(st, (ast.Assign, ast.AugAssign, ast.AnnAssign, ast.For, ast.With, ast.Delete)) or id(st) in recognised: continue
        tgts = st.targets if isinstance(st, (ast.Assign, ast.Delete)) else [st.target] if hasattr(st, 'target') else []
        for t in tgts:
            for nm in ast.walk(t):
                if isinstance(nm, ast.Name) and nm.id in tracked:
                    raise Refuse(f'power_spectrum: statement not understood: {ast.unparse(st)[:80]}')
    names = sorted(idx, key=lambda k: idx[k])     # variable along i first
    out = []
    out.append(f'/-- shape of `np.mgrid[...]` (frequency grid, PSD, filter H) for a mask of shape (rows, cols) -/\ndef psGridShape (rows cols : Int) : Int × Int := ({grid[0]}, {grid[1]})\n')
    out.append(f'/-- shape of the noise array `rng.normal(size=[...])` -/\ndef psNoiseShape (rows cols : Int) : Int × Int := ({noise[0]}, {noise[1]})\n')
    for nm, ix in ((names[0], 'i'), (names[1], 'j')):
        A, B = axes[nm]
        lean = 'psFreqRow' if ix == 'i' else 'psFreqCol'
        out.append(f'/-- `{nm}` at grid index (i, j): numerator and denominator of the frequency in cycles per pixel -/\n'
                   f'def {lean} (rows cols i j : Int) : Int × Int := ({ix} - ({A} / 2 + 1), {B})\n')
    return '\n'.join(out), [f'grid {grid}, noise {noise}, axes {axes}']

MODULES = [{'name': 'PowerSpectrum', 'src': 'lentil/wfe.py', 'generator': generator, 'props': ['C18']}]
