"""C18 — regenerated index bookkeeping of lentil.wfe.power_spectrum (tie 1).

The frequency grid, the filter and the noise array of `power_spectrum` must all have the (rows, cols) shape of the mask
and each axis must be normalised by its own length. This generator reads those index expressions off the source:
    n, m = mask.shape ; yy, xx = np.mgrid[0:n, 0:m] ; yy = (yy - (np.floor(n / 2) + 1)) / n ; xx = ... / m ; rng.normal(size=[n, m])
and emits them as Lean definitions over (rows, cols, i, j). Swapping n and m anywhere changes a definition and
`Props/C18.filter_shape_eq_mask_shape` / `frequency_grid_per_axis` stop checking. Anything else is refused."""
import ast, os
from py2lean import Refuse

def _robust(gen, what):
    """a source shape the spec did not anticipate is a readable refusal (tie broken), never a crash"""
    def wrapped(repo):
        try:
            return gen(repo)
        except Refuse:
            raise
        except (AttributeError, IndexError, KeyError, TypeError, ValueError, AssertionError) as e:
            import traceback
            tb = traceback.extract_tb(e.__traceback__)[-1]
            raise Refuse(f'{what}: source has a shape this translator does not understand '
                         f'({type(e).__name__}: {e}; while reading `{(tb.line or "").strip()[:70]}`)')
    wrapped.__name__ = getattr(gen, '__name__', 'generator')
    return wrapped

def _axis_expr(node, env, var):
    """(VAR - (np.floor(A / 2) + 1)) / B  ->  (A', B') with A', B' in {'rows','cols'}"""
    src = ast.unparse(node)
    if not (isinstance(node, ast.BinOp) and isinstance(node.op, ast.Div) and isinstance(node.right, ast.Name)): raise Refuse(f'grid normalisation: {src}')
    B = node.right.id
    num = node.left
    if not (isinstance(num, ast.BinOp) and isinstance(num.op, ast.Sub) and isinstance(num.left, ast.Name) and num.left.id == var): raise Refuse(f'grid normalisation: {src}')
    c = num.right
    ok = (isinstance(c, ast.BinOp) and isinstance(c.op, ast.Add) and isinstance(c.right, ast.Constant) and c.right.value == 1
          and isinstance(c.left, ast.Call) and ast.unparse(c.left.func) in ('np.floor', 'numpy.floor') and len(c.left.args) == 1)
    if not ok: raise Refuse(f'grid centre: {src}')
    d = c.left.args[0]
    if not (isinstance(d, ast.BinOp) and isinstance(d.op, ast.Div) and isinstance(d.left, ast.Name) and isinstance(d.right, ast.Constant) and d.right.value == 2):
        raise Refuse(f'grid centre: {src}')
    A = d.left.id
    if A not in env or B not in env: raise Refuse(f'grid uses unknown size {A}, {B}')
    return env[A], env[B]

def generator(repo):
    src = os.path.join(repo, 'lentil', 'wfe.py')
    tree = ast.parse(open(src).read())
    fn = [n for n in tree.body if isinstance(n, ast.FunctionDef) and n.name == 'power_spectrum']
    if not fn: raise Refuse('power_spectrum not found')
    env, grid, axes, noise, idx = {}, None, {}, None, {}
    recognised, noise_var = set(), None
    for st in fn[0].body:
        if not isinstance(st, ast.Assign) or len(st.targets) != 1: continue
        t, v = st.targets[0], st.value
        if isinstance(t, ast.Tuple) and ast.unparse(v) == 'mask.shape':
            names = [e.id for e in t.elts]
            if len(names) != 2: raise Refuse('mask.shape unpacking')
            env = {names[0]: 'rows', names[1]: 'cols'}; recognised.add(id(st))
        elif isinstance(t, ast.Tuple) and isinstance(v, ast.Subscript) and ast.unparse(v.value) in ('np.mgrid', 'numpy.mgrid'):
            sl = v.slice.elts if isinstance(v.slice, ast.Tuple) else None
            if not sl or len(sl) != 2 or not all(isinstance(s, ast.Slice) and ast.unparse(s.lower) == '0' and isinstance(s.upper, ast.Name) for s in sl):
                raise Refuse(f'mgrid: {ast.unparse(v)}')
            grid = (env[sl[0].upper.id], env[sl[1].upper.id])
            idx = {t.elts[0].id: 'i', t.elts[1].id: 'j'}          # first output varies along axis 0
            recognised.add(id(st))
        elif isinstance(t, ast.Name) and t.id in idx and t.id not in axes:
            axes[t.id] = _axis_expr(v, env, t.id); recognised.add(id(st))
        elif isinstance(t, ast.Name) and isinstance(v, ast.Call) and ast.unparse(v.func).endswith('.normal'):
            kw = {k.arg: k.value for k in v.keywords}
            if 'size' not in kw or not isinstance(kw['size'], (ast.List, ast.Tuple)) or len(kw['size'].elts) != 2: raise Refuse('noise size')
            noise = tuple(env[e.id] for e in kw['size'].elts); noise_var = t.id; recognised.add(id(st))
    if grid is None or noise is None or len(axes) != 2: raise Refuse('power_spectrum: grid / noise statements not found')
    # every other statement that (re)binds or writes a size, a grid variable or the noise array is outside the understood form
    tracked = set(env) | set(idx) | {noise_var}
    for st in ast.walk(fn[0]):
        if not isinstance(st, (ast.Assign, ast.AugAssign, ast.AnnAssign, ast.For, ast.With, ast.Delete)) or id(st) in recognised: continue
        tgts = st.targets if isinstance(st, (ast.Assign, ast.Delete)) else [st.target] if hasattr(st, 'target') else []
        for t in tgts:
            for nm in ast.walk(t):
                if isinstance(nm, ast.Name) and nm.id in tracked:
                    raise Refuse(f'power_spectrum: statement not understood: {ast.unparse(st)[:80]}')
    # ---- the tail: `opd *= mask` ; `opd = opd * np.sqrt(np.count_nonzero(opd)/np.sum(np.abs(opd)**2)) * rms`
    def tail_expr(e, var):
        src = ast.unparse(e)
        if isinstance(e, ast.Name):
            if e.id == var: return 'x'
            if e.id == 'rms': return 'rms'
            raise Refuse(f'power_spectrum tail: name {e.id}')
        if isinstance(e, ast.Call):
            f_ = ast.unparse(e.func)
            if f_ in ('np.sqrt', 'numpy.sqrt') and len(e.args) == 1: return f'(sqrt {tail_expr(e.args[0], var)})'
            if f_ in ('np.count_nonzero', 'numpy.count_nonzero') and len(e.args) == 1 and ast.unparse(e.args[0]) in (var, 'mask'): return 'count'     # equal for a binary mask and non-zero noise (power_spectrum_rms_over_mask)
            if f_ in ('np.sum', 'numpy.sum') and len(e.args) == 1 and ast.unparse(e.args[0]).replace(' ', '') in (f'np.abs({var})**2', f'{var}**2', f'{var}*{var}'): return 'sumsq'
            raise Refuse(f'power_spectrum tail: call {src}')
        if isinstance(e, ast.BinOp) and isinstance(e.op, ast.Mult): return f'({tail_expr(e.left, var)} * {tail_expr(e.right, var)})'
        if isinstance(e, ast.BinOp) and isinstance(e.op, ast.Div): return f'(div {tail_expr(e.left, var)} {tail_expr(e.right, var)})'
        raise Refuse(f'power_spectrum tail: {src}')
    mask_step, norm_step, out_var = None, None, None
    for st in fn[0].body:
        if isinstance(st, ast.AugAssign) and isinstance(st.op, ast.Mult) and ast.unparse(st.value) == 'mask' and isinstance(st.target, ast.Name):
            mask_step = st.target.id; recognised.add(id(st))
        elif mask_step and isinstance(st, ast.Assign) and ast.unparse(st.targets[0]) == mask_step and 'count_nonzero' in ast.unparse(st.value):
            norm_step = tail_expr(st.value, mask_step)
        elif isinstance(st, ast.Return): out_var = ast.unparse(st.value)
    if mask_step is None or norm_step is None or out_var != mask_step: raise Refuse('power_spectrum: mask / normalisation / return not found')
    names = sorted(idx, key=lambda k: idx[k])     # variable along i first
    out = []
    out.append(f'/-- shape of `np.mgrid[...]` (frequency grid, PSD, filter H) for a mask of shape (rows, cols) -/\ndef psGridShape (rows cols : Int) : Int × Int := ({grid[0]}, {grid[1]})\n')
    out.append(f'/-- shape of the noise array `rng.normal(size=[...])` -/\ndef psNoiseShape (rows cols : Int) : Int × Int := ({noise[0]}, {noise[1]})\n')
    for nm, ix in ((names[0], 'i'), (names[1], 'j')):
        A, B = axes[nm]
        lean = 'psFreqRow' if ix == 'i' else 'psFreqCol'
        out.append(f'/-- `{nm}` at grid index (i, j): numerator and denominator of the frequency in cycles per pixel -/\n'
                   f'def {lean} (rows cols i j : Int) : Int × Int := ({ix} - ({A} / 2 + 1), {B})\n')
    out.append('/-- `opd *= mask` -/\ndef psMaskStep {K : Type} [Mul K] (x mask : K) : K := x * mask\n')
    out.append('/-- the final rescale, translated: `x` the masked sample, `count = count_nonzero(opd)`, `sumsq = sum(|opd|^2)` over the masked map -/\n'
               f'def psNormalise {{K : Type}} [Mul K] (sqrt : K → K) (div : K → K → K) (x count sumsq rms : K) : K := {norm_step}\n')
    return '\n'.join(out), [f'grid {grid}, noise {noise}, axes {axes}, tail {norm_step}']

MODULES = [{'name': 'PowerSpectrum', 'src': 'lentil/wfe.py', 'generator': _robust(generator, 'power_spectrum bookkeeping'), 'props': ['C18']}]


# ---------------------------------------------------------------------------------------------- rule07_dark_current
def _lit(text):
    """decimal literal -> (mantissa, negative-exponent flag, exponent) of `OfScientific.ofScientific`"""
    from decimal import Decimal
    d = Decimal(text)
    sign, digits, exp = d.as_tuple()
    if sign: raise Refuse(f'negative literal {text}')
    m = int(''.join(map(str, digits)))
    return f'(lit {m} {"true" if exp < 0 else "false"} {abs(exp)})'

def _fx(e, names):
    src = ast.unparse(e)
    if isinstance(e, ast.Constant) and isinstance(e.value, (int, float)): return _lit(src)
    if isinstance(e, ast.UnaryOp) and isinstance(e.op, ast.USub): return f'((lit 0 false 0) - {_fx(e.operand, names)})'
    if isinstance(e, ast.Name):
        if e.id in names: return e.id
        raise Refuse(f'rule07: unknown name {e.id}')
    if isinstance(e, ast.Call) and ast.unparse(e.func) in ('np.exp', 'numpy.exp') and len(e.args) == 1: return f'(exp {_fx(e.args[0], names)})'
    if isinstance(e, ast.BinOp):
        if isinstance(e.op, ast.Pow):
            if isinstance(e.right, ast.Constant) and e.right.value == 2: return f'({_fx(e.left, names)} * {_fx(e.left, names)})'
            return f'(pow {_fx(e.left, names)} {_fx(e.right, names)})'
        op = {ast.Add: '+', ast.Sub: '-', ast.Mult: '*', ast.Div: '/'}.get(type(e.op))
        if op is None: raise Refuse(f'rule07: operator in {src}')
        return f'({_fx(e.left, names)} {op} {_fx(e.right, names)})'
    raise Refuse(f'rule07: expression not understood: {src}')

def rule07_generator(repo):
    tree = ast.parse(open(os.path.join(repo, 'lentil', 'detector.py')).read())
    fn = [n for n in tree.body if isinstance(n, ast.FunctionDef) and n.name == 'rule07_dark_current']
    if not fn: raise Refuse('rule07_dark_current not found')
    names = ['temperature', 'cutoff_wavelength', 'pixelscale']
    lets, ret = [], None
    for st in fn[0].body:
        if isinstance(st, ast.Expr) and isinstance(st.value, ast.Constant): continue        # docstring
        if isinstance(st, ast.Assign) and len(st.targets) == 1 and isinstance(st.targets[0], ast.Name):
            lets.append(f'  let {st.targets[0].id} := {_fx(st.value, names)}'); names.append(st.targets[0].id)
        elif isinstance(st, ast.If):
            t = st.test
            if not (isinstance(t, ast.Compare) and len(t.ops) == 1 and isinstance(t.ops[0], ast.GtE)): raise Refuse(f'rule07: test {ast.unparse(t)}')
            a, b = st.body, st.orelse
            if not (len(a) == 1 and len(b) == 1 and isinstance(a[0], ast.Assign) and isinstance(b[0], ast.Assign)
                    and ast.unparse(a[0].targets[0]) == ast.unparse(b[0].targets[0])): raise Refuse('rule07: if/else form')
            v = ast.unparse(a[0].targets[0])
            lets.append(f'  let {v} := if {_fx(t.comparators[0], names)} ≤ {_fx(t.left, names)} then {_fx(a[0].value, names)} else {_fx(b[0].value, names)}')
            names.append(v)
        elif isinstance(st, ast.Return):
            c = st.value
            if not (isinstance(c, ast.Call) and ast.unparse(c.func) == 'dark_current'): raise Refuse(f'rule07: return {ast.unparse(c)}')
            ret = ast.unparse(c.args[0]) if c.args else None
        else: raise Refuse(f'rule07: statement not understood: {ast.unparse(st)[:60]}')
    if ret not in names: raise Refuse('rule07: rate argument of dark_current not found')
    body = '\n'.join(lets)
    text = ('/-- the Rule-07 dark-current rate exactly as `rule07_dark_current` computes it (every constant and operation translated) -/\n'
            'def rule07Rate {K : Type} [LE K] [DecidableLE K] [Add K] [Sub K] [Mul K] [Div K] (exp : K → K) (pow : K → K → K)\n'
            '    (lit : Nat → Bool → Nat → K) (temperature cutoff_wavelength pixelscale : K) : K :=\n' + body + f'\n  {ret}\n')
    return text, [f'{len(lets)} statements']

MODULES.append({'name': 'Rule07', 'src': 'lentil/detector.py', 'generator': _robust(rule07_generator, 'rule07_dark_current rate'), 'props': ['C18']})


# ---------------------------------------------------------------------------------------------- shot_noise guards / dark_current frame
def _guard(test):
    """`np.min(img) < c` / `np.max(img) > c` -> Lean Bool over (mn, mx)"""
    if not (isinstance(test, ast.Compare) and len(test.ops) == 1 and isinstance(test.left, ast.Call) and [ast.unparse(a) for a in test.left.args] == ['img']
            and not test.left.keywords and isinstance(test.comparators[0], ast.Constant)): raise Refuse(f'shot_noise guard: {ast.unparse(test)}')
    red = {'np.min': 'mn', 'numpy.min': 'mn', 'np.max': 'mx', 'numpy.max': 'mx'}.get(ast.unparse(test.left.func))
    if red is None: raise Refuse(f'shot_noise guard reduces with {ast.unparse(test.left.func)}')
    c = test.comparators[0]
    cl = '0' if (isinstance(c.value, int) and c.value == 0) else _lit(ast.unparse(c))
    if isinstance(test.ops[0], ast.Lt): return f'decide ({red} < {cl})'
    if isinstance(test.ops[0], ast.Gt): return f'decide ({cl} < {red})'
    raise Refuse(f'shot_noise guard comparison: {ast.unparse(test)}')

def _raises_value_error(body):
    return len(body) == 1 and isinstance(body[0], ast.Raise) and isinstance(body[0].exc, ast.Call) and ast.unparse(body[0].exc.func) == 'ValueError'

def shot_dark_generator(repo):
    tree = ast.parse(open(os.path.join(repo, 'lentil', 'detector.py')).read())
    fns = {n.name: n for n in tree.body if isinstance(n, ast.FunctionDef)}
    if 'shot_noise' not in fns or 'dark_current' not in fns: raise Refuse('shot_noise / dark_current not found')
    f = fns['shot_noise']
    disp = [st for st in f.body if isinstance(st, ast.If) and ast.unparse(st.test) == "method == 'poisson'"]
    if len(disp) != 1: raise Refuse("shot_noise: `if method == 'poisson'` dispatch")
    # --- poisson: try: img = rng.poisson(img) except ValueError: if g1: raise ValueError elif g2: raise ValueError else: raise e
    tr = disp[0].body
    if not (len(tr) == 1 and isinstance(tr[0], ast.Try) and len(tr[0].body) == 1 and len(tr[0].handlers) == 1 and ast.unparse(tr[0].handlers[0].type) == 'ValueError'
            and not tr[0].orelse and not tr[0].finalbody): raise Refuse('shot_noise poisson branch: try/except ValueError expected')
    pdraw = ast.unparse(tr[0].body[0])
    if pdraw != 'img = rng.poisson(img)': raise Refuse(f'poisson draw: {pdraw}')
    pg, node = [], tr[0].handlers[0].body
    while True:
        if not (len(node) == 1 and isinstance(node[0], ast.If) and _raises_value_error(node[0].body)): raise Refuse('poisson except body: chain of guards raising ValueError expected')
        pg.append(_guard(node[0].test)); node = node[0].orelse
        if len(node) == 1 and isinstance(node[0], ast.Raise) and not isinstance(node[0].exc, ast.Call): break     # `raise e`
    # --- gaussian: guards first, then the draw
    gg, gdraw = [], None
    for st in disp[0].orelse:
        if isinstance(st, ast.If):
            if gdraw is not None or st.orelse or not _raises_value_error(st.body): raise Refuse(f'gaussian guard: {ast.unparse(st)[:60]}')
            gg.append(_guard(st.test))
        elif isinstance(st, ast.With):
            asg = [n for n in ast.walk(st) if isinstance(n, ast.Assign) and ast.unparse(n.targets[0]) == 'img']
            if len(asg) != 1: raise Refuse('gaussian draw')
            gdraw = ast.unparse(asg[0].value)
        else: raise Refuse(f'gaussian branch statement: {ast.unparse(st)[:60]}')
    if gdraw != 'np.asarray(rng.normal(loc=img, scale=np.sqrt(img)), dtype=int)': raise Refuse(f'gaussian draw: {gdraw}')
    ret = [st for st in f.body if isinstance(st, ast.Return)]
    if len(ret) != 1 or ast.unparse(ret[0].value) != 'np.floor(img)': raise Refuse('shot_noise return')
    sig = '{K : Type} [LT K] [DecidableLT K] [Zero K] (lit : Nat → Bool → Nat → K) (mn mx : K) : Bool'
    out = ['/-- `shot_noise(method=\'poisson\')`: the frame is refused with ValueError (after NumPy refused the draw) when … of `mn = np.min(img)`, `mx = np.max(img)` -/\n'
           f'def shotGuardPoisson {sig} := {" || ".join(pg)}\n',
           '/-- `shot_noise(method=\'gaussian\')`: guards evaluated BEFORE the draw -/\n'
           f'def shotGuardGaussian {sig} := {" || ".join(gg)}\n']
    # --- dark_current: if fpn_factor > 0: rng…; fpn = rng.lognormal(mean=1.0, sigma=fpn_factor, size=shape) else: fpn = 1 ; dark = np.floor(rate*np.ones(shape)*fpn)
    d = fns['dark_current']
    body = [st for st in d.body if not (isinstance(st, ast.Expr) and isinstance(st.value, ast.Constant))]
    if not (len(body) == 3 and isinstance(body[0], ast.If) and isinstance(body[1], ast.Assign) and isinstance(body[2], ast.Return) and ast.unparse(body[2].value) == 'dark'): raise Refuse('dark_current body')
    t = body[0].test
    if not (isinstance(t, ast.Compare) and ast.unparse(t.left) == 'fpn_factor' and isinstance(t.ops[0], ast.Gt) and ast.unparse(t.comparators[0]) == '0'): raise Refuse(f'dark_current test {ast.unparse(t)}')
    fp = [st for st in body[0].body if isinstance(st, ast.Assign) and ast.unparse(st.targets[0]) == 'fpn']
    if len(fp) != 1 or ast.unparse(fp[0].value) != 'rng.lognormal(mean=1.0, sigma=fpn_factor, size=shape)': raise Refuse('dark_current fixed-pattern draw')
    if not (len(body[0].orelse) == 1 and ast.unparse(body[0].orelse[0]) == 'fpn = 1'): raise Refuse('dark_current: else fpn = 1')
    v = body[1].value
    if not (ast.unparse(body[1].targets[0]) == 'dark' and isinstance(v, ast.Call) and ast.unparse(v.func) in ('np.floor', 'numpy.floor') and len(v.args) == 1): raise Refuse('dark_current frame')
    def dx(e):
        src = ast.unparse(e)
        if src == 'rate': return 'rate'
        if src == 'fpn': return 'fpn'
        if src in ('np.ones(shape)', 'numpy.ones(shape)'): return 'ones'
        if isinstance(e, ast.BinOp) and isinstance(e.op, ast.Mult): return f'({dx(e.left)} * {dx(e.right)})'
        raise Refuse(f'dark_current frame expression: {src}')
    out += ['/-- `dark_current`: fixed-pattern draws are used when -/\n'
            'def darkUsesFpn {K : Type} [LT K] [DecidableLT K] [Zero K] (fpn_factor : K) : Bool := decide (0 < fpn_factor)\n',
            '/-- `dark_current`: argument of `np.floor` (per pixel; `ones` = entry of `np.ones(shape)`, `fpn` = the draw or the constant 1) -/\n'
            f'def darkFloorArg {{K : Type}} [Mul K] (rate ones fpn : K) : K := {dx(v.args[0])}\n']
    # --- read_noise: img = np.asarray(img); rng = default_rng(seed); noise = rng.normal(loc=L, scale=S, size=img.shape); return img ± noise
    if 'read_noise' not in fns: raise Refuse('read_noise not found')
    rb = [st for st in fns['read_noise'].body if not (isinstance(st, ast.Expr) and isinstance(st.value, ast.Constant))]
    if [ast.unparse(st) for st in rb[:2]] != ['img = np.asarray(img)', 'rng = np.random.default_rng(seed)'] or len(rb) != 4: raise Refuse('read_noise body')
    nz, rt = rb[2], rb[3]
    if not (isinstance(nz, ast.Assign) and ast.unparse(nz.targets[0]) == 'noise' and isinstance(nz.value, ast.Call) and ast.unparse(nz.value.func) == 'rng.normal' and not nz.value.args): raise Refuse('read_noise draw')
    kw = {k.arg: k.value for k in nz.value.keywords}
    if sorted(kw) != ['loc', 'scale', 'size'] or ast.unparse(kw['size']) != 'img.shape': raise Refuse(f'read_noise draw arguments: {ast.unparse(nz.value)}')
    def rx(e):
        src = ast.unparse(e)
        if src in ('electrons', 'img', 'noise'): return src
        if isinstance(e, ast.Constant) and isinstance(e.value, (int, float)):
            if e.value == 0: return '0'
            return _lit(src)
        if isinstance(e, ast.BinOp):
            op = {ast.Add: '+', ast.Sub: '-', ast.Mult: '*'}.get(type(e.op))
            if op is None: raise Refuse(f'read_noise: operator in {src}')
            return f'({rx(e.left)} {op} {rx(e.right)})'
        raise Refuse(f'read_noise: expression not understood: {src}')
    if not isinstance(rt, ast.Return): raise Refuse('read_noise return')
    out += ['/-- `read_noise`: the returned pixel, `noise` being the draw `rng.normal(loc, scale, img.shape)` = `loc + scale·z` of that pixel (`z` its standard-normal draw) -/\n'
            'def readNoiseFrame {K : Type} [Zero K] [Add K] [Sub K] [Mul K] (lit : Nat → Bool → Nat → K) (img z electrons : K) : K :=\n'
            f'  let noise := {rx(kw["loc"])} + {rx(kw["scale"])} * z\n  {rx(rt.value)}\n']
    return '\n'.join(out), [f'poisson guards {pg} gaussian guards {gg} dark {dx(v.args[0])} read {rx(rt.value)} loc {rx(kw["loc"])} scale {rx(kw["scale"])}']

MODULES.append({'name': 'ShotDark', 'src': 'lentil/detector.py', 'generator': _robust(shot_dark_generator, 'shot_noise guards / dark_current frame'), 'props': ['C18']})
