"""C13 — the scalar arithmetic of `_interp_common` (lentil/radiometry.py) as Lean definitions: common range, guard tolerance,
number of grid intervals (every assignment to `num`, in order), and the three arguments handed to `np.linspace`.
Accepted: names, decimal literals (exact, from the source text), + - * /, `**` by a small natural literal, `min`/`max` of two
terms, `<operand>.wave.min()/.max()`, `int(np.ceil(·))`; anything else is refused."""
import ast, os
from fractions import Fraction
from py2lean import Refuse

SRC = 'lentil/radiometry.py'

def _lit(src, node):
    if isinstance(node.value, bool) or not isinstance(node.value, (int, float)): raise Refuse(f'literal {node.value!r}')
    text = ast.get_source_segment(src, node)
    try: q = Fraction(text.replace('_', ''))
    except Exception: raise Refuse(f'numeric literal {text!r}')
    if float(q) != float(node.value): raise Refuse(f'literal {text!r} read inexactly')
    return q

def _expr(src, e, env):
    if isinstance(e, ast.Constant):
        q = _lit(src, e)
        return str(q.numerator) if q.denominator == 1 else f'(({q.numerator} : Rat) / {q.denominator})'
    if isinstance(e, ast.Name):
        if e.id in env: return env[e.id]
        raise Refuse(f'name {e.id}')
    if isinstance(e, ast.BinOp):
        if isinstance(e.op, ast.Pow):
            if not (isinstance(e.right, ast.Constant) and isinstance(e.right.value, int) and 0 <= e.right.value <= 64): raise Refuse('power by a non-literal')
            return f'({_expr(src, e.left, env)} ^ {e.right.value})'
        op = {ast.Mult: '*', ast.Div: '/', ast.Add: '+', ast.Sub: '-'}.get(type(e.op))
        if op is None: raise Refuse(f'operator {type(e.op).__name__}')
        return f'({_expr(src, e.left, env)} {op} {_expr(src, e.right, env)})'
    if isinstance(e, ast.Call):
        f = ast.unparse(e.func)
        if f in ('min', 'max') and len(e.args) == 2 and not e.keywords: return f'({f} {_expr(src, e.args[0], env)} {_expr(src, e.args[1], env)})'
        if f in ('s1.wave.min', 's2.wave.min', 's1.wave.max', 's2.wave.max') and not e.args:
            return {'s1.wave.min': 'lo1', 's2.wave.min': 'lo2', 's1.wave.max': 'hi1', 's2.wave.max': 'hi2'}[f]
        if f == 'int' and len(e.args) == 1 and isinstance(e.args[0], ast.Call) and ast.unparse(e.args[0].func) == 'np.ceil' and len(e.args[0].args) == 1:
            return f'(Rat.ceil {_expr(src, e.args[0].args[0], env)})'
    raise Refuse(f'expression {ast.unparse(e)[:60]}')

def generate(repo):
    src = open(os.path.join(repo, SRC)).read()
    tree = ast.parse(src)
    fn = [n for n in tree.body if isinstance(n, ast.FunctionDef) and n.name == '_interp_common']
    if not fn: raise Refuse('_interp_common not found')
    body = [st for st in fn[0].body if not (isinstance(st, ast.Expr) and isinstance(st.value, ast.Constant))]
    names = lambda st: [ast.unparse(t) for t in st.targets] if isinstance(st, ast.Assign) else []
    i0 = next((i for i, st in enumerate(body) if names(st) == ['minwave']), None)
    i1 = next((i for i, st in enumerate(body) if names(st) == ['commonwave']), None)
    if i0 is None or i1 is None or i1 < i0: raise Refuse('_interp_common: minwave … commonwave block not found')
    block = body[i0:i1 + 1]
    if not all(isinstance(st, ast.Assign) and len(st.targets) == 1 and isinstance(st.targets[0], ast.Name) for st in block):
        raise Refuse('_interp_common: a non-assignment between minwave and commonwave')
    seq = [(st.targets[0].id, st.value) for st in block]
    order = [n for n, _ in seq]
    if [n for n in order if n != 'num'] != ['minwave', 'maxwave', 'dwave', 'tol', 'commonwave'] or 'num' not in order or order.index('num') < order.index('tol'):
        raise Refuse(f'_interp_common: assignments {order}')
    val = dict((n, v) for n, v in seq if n != 'num')
    if ast.unparse(val['dwave']) != '_sampling((s1.wave, s2.wave), sampling)': raise Refuse('_interp_common: dwave is not _sampling((s1.wave, s2.wave), sampling)')
    L = []
    A = L.append
    A('/-- `minwave`, `maxwave` of `_interp_common` -/')
    A(f"def interpMin (lo1 lo2 : Rat) : Rat := {_expr(src, val['minwave'], {})}")
    A(f"def interpMax (hi1 hi2 : Rat) : Rat := {_expr(src, val['maxwave'], {})}")
    A('/-- the guard `tol` -/')
    A(f"def interpTol (dwave : Rat) : Rat := {_expr(src, val['tol'], {'dwave': 'dwave'})}")
    A('/-- `num`: every assignment to it, in source order -/')
    lines, env, k = [], {'minwave': 'minwave', 'maxwave': 'maxwave', 'dwave': 'dwave', 'tol': 'tol'}, 0
    for n, v in seq:
        if n != 'num': continue
        k += 1
        lines.append(f'  let num_{k} : Int := {_expr(src, v, env)}')
        env = dict(env, num=f'num_{k}')
    A('def interpNum (minwave maxwave dwave tol : Rat) : Int :=\n' + '\n'.join(lines) + f'\n  num_{k}')
    cw = val['commonwave']
    if not (isinstance(cw, ast.Call) and ast.unparse(cw.func) == 'np.linspace' and len(cw.args) == 3 and not cw.keywords): raise Refuse('commonwave is not np.linspace(a, b, n)')
    env2 = {'minwave': 'minwave', 'maxwave': 'maxwave', 'num': 'num'}
    A('/-- the arguments of `np.linspace(start, stop, count)` -/')
    A(f'def interpStart (minwave maxwave : Rat) (num : Int) : Rat := {_expr(src, cw.args[0], env2)}')
    A(f'def interpStop (minwave maxwave : Rat) (num : Int) : Rat := {_expr(src, cw.args[1], env2)}')
    A(f'def interpCount (minwave maxwave : Rat) (num : Int) : Int := {_expr(src, cw.args[2], env2)}')
    return '\n'.join(L) + '\n', {'assignments': order}

MODULES = [{'name': 'InterpGrid', 'src': SRC, 'generator': generate, 'props': ['C13']}]
