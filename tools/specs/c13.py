"""C13 — the scalar arithmetic of `_interp_common` (lentil/radiometry.py) as Lean definitions: common range, guard tolerance,
number of grid intervals (every assignment to `num`, in order), and the three arguments handed to `np.linspace`.
Accepted: names, decimal literals (exact, from the source text), + - * /, `**` by a small natural literal, `min`/`max` of two
terms, `<operand>.wave.min()/.max()`, `int(np.ceil(·))`; anything else is refused."""
import ast, os
from fractions import Fraction
from py2lean import Refuse

SRC = 'lentil/radiometry.py'

def _lit(src, node):
    if isinstance(node.value, bool) or not isinstance(node.value, (int, float)): raise Refuse(f'literal {node.value!r}')
    text = ast.get_source_segment(src, node)
    try: q = Fraction(text.replace('_', ''))
    except Exception: raise Refuse(f'numeric literal {text!r}')
    if float(q) != float(node.value): raise Refuse(f'literal {text!r} read inexactly')
    return q

def _expr(src, e, env):
    if isinstance(e, ast.Constant):
        q = _lit(src, e)
        return str(q.numerator) if q.denominator == 1 else f'(({q.numerator} : Rat) / {q.denominator})'
    if isinstance(e, ast.Name):
        if e.id in env: return env[e.id]
        raise Refuse(f'name {e.id}')
    if isinstance(e, ast.BinOp):
        if isinstance(e.op, ast.Pow):
            if not (isinstance(e.right, ast.Constant) and isinstance(e.right.value, int) and 0 <= e.right.value <= 64): raise Refuse('power by a non-literal')
            return f'({_expr(src, e.left, env)} ^ {e.right.value})'
        op = {ast.Mult: '*', ast.Div: '/', ast.Add: '+', ast.Sub: '-'}.get(type(e.op))
        if op is None: raise Refuse(f'operator {type(e.op).__name__}')
        return f'({_expr(src, e.left, env)} {op} {_expr(src, e.right, env)})'
    if isinstance(e, ast.Call):
        f = ast.unparse(e.func)
        if f in ('min', 'max') and len(e.args) == 2 and not e.keywords: return f'({f} {_expr(src, e.args[0], env)} {_expr(src, e.args[1], env)})'
        if f in ('s1.wave.min', 's2.wave.min', 's1.wave.max', 's2.wave.max') and not e.args:
            return {'s1.wave.min': 'lo1', 's2.wave.min': 'lo2', 's1.wave.max': 'hi1', 's2.wave.max': 'hi2'}[f]
        if f == 'int' and len(e.args) == 1 and isinstance(e.args[0], ast.Call) and ast.unparse(e.args[0].func) == 'np.ceil' and len(e.args[0].args) == 1:
            return f'(Rat.ceil {_expr(src, e.args[0].args[0], env)})'
    raise Refuse(f'expression {ast.unparse(e)[:60]}')

def generate(repo):
    src = open(os.path.join(repo, SRC)).read()
    tree = ast.parse(src)
    fn = [n for n in tree.body if isinstance(n, ast.FunctionDef) and n.name == '_interp_common']
    if not fn: raise Refuse('_interp_common not found')
    body = [st for st in fn[0].body if not (isinstance(st, ast.Expr) and isinstance(st.value, ast.Constant))]
    names = lambda st: [ast.unparse(t) for t in st.targets] if isinstance(st, ast.Assign) else []
    i0 = next((i for i, st in enumerate(body) if names(st) == ['minwave']), None)
    i1 = next((i for i, st in enumerate(body) if names(st) == ['commonwave']), None)
    if i0 is None or i1 is None or i1 < i0: raise Refuse('_interp_common: minwave … commonwave block not found')
    block = body[i0:i1 + 1]
    if not all(isinstance(st, ast.Assign) and len(st.targets) == 1 and isinstance(st.targets[0], ast.Name) for st in block):
        raise Refuse('_interp_common: a non-assignment between minwave and commonwave')
    seq = [(st.targets[0].id, st.value) for st in block]
    order = [n for n, _ in seq]
    if [n for n in order if n != 'num'] != ['minwave', 'maxwave', 'dwave', 'tol', 'commonwave'] or 'num' not in order or order.index('num') < order.index('tol'):
        raise Refuse(f'_interp_common: assignments {order}')
    val = dict((n, v) for n, v in seq if n != 'num')
    if ast.unparse(val['dwave']) != '_sampling((s1.wave, s2.wave), sampling)': raise Refuse('_interp_common: dwave is not _sampling((s1.wave, s2.wave), sampling)')
    L = []
    A = L.append
    A('/-- `minwave`, `maxwave` of `_interp_common` -/')
    A(f"def interpMin (lo1 lo2 : Rat) : Rat := {_expr(src, val['minwave'], {})}")
    A(f"def interpMax (hi1 hi2 : Rat) : Rat := {_expr(src, val['maxwave'], {})}")
    A('/-- the guard `tol` -/')
    A(f"def interpTol (dwave : Rat) : Rat := {_expr(src, val['tol'], {'dwave': 'dwave'})}")
    A('/-- `num`: every assignment to it, in source order -/')
    lines, env, k = [], {'minwave': 'minwave', 'maxwave': 'maxwave', 'dwave': 'dwave', 'tol': 'tol'}, 0
    for n, v in seq:
        if n != 'num': continue
        k += 1
        lines.append(f'  let num_{k} : Int := {_expr(src, v, env)}')
        env = dict(env, num=f'num_{k}')
    A('def interpNum (minwave maxwave dwave tol : Rat) : Int :=\n' + '\n'.join(lines) + f'\n  num_{k}')
    cw = val['commonwave']
    if not (isinstance(cw, ast.Call) and ast.unparse(cw.func) == 'np.linspace' and len(cw.args) == 3 and not cw.keywords): raise Refuse('commonwave is not np.linspace(a, b, n)')
    env2 = {'minwave': 'minwave', 'maxwave': 'maxwave', 'num': 'num'}
    A('/-- the arguments of `np.linspace(start, stop, count)` -/')
    A(f'def interpStart (minwave maxwave : Rat) (num : Int) : Rat := {_expr(src, cw.args[0], env2)}')
    A(f'def interpStop (minwave maxwave : Rat) (num : Int) : Rat := {_expr(src, cw.args[1], env2)}')
    A(f'def interpCount (minwave maxwave : Rat) (num : Int) : Int := {_expr(src, cw.args[2], env2)}')
    # ---- _sampling: which operand's finest spacing each option selects
    sf = [n for n in tree.body if isinstance(n, ast.FunctionDef) and n.name == '_sampling']
    if not sf: raise Refuse('_sampling not found')
    sbody = [st for st in sf[0].body if not (isinstance(st, ast.Expr) and isinstance(st.value, ast.Constant))]
    if len(sbody) != 1 or not isinstance(sbody[0], ast.If): raise Refuse('_sampling: body is not one if-chain')
    sel, node = {}, sbody[0]
    while True:
        t = ast.unparse(node.test)
        src_b = ast.unparse(ast.Module(body=node.body, type_ignores=[]))
        if t == "method == 'min'":
            tup = [st for st in node.body if isinstance(st, ast.If) and 'isinstance(wave, (list, tuple))' in ast.unparse(st.test)]
            if not tup or 'for w in wave' not in src_b or 'np.append(dwave, np.diff(w).min())' not in src_b or 'return dwave.min()' not in src_b:
                raise Refuse("_sampling: 'min' over a tuple of grids is not min over each np.diff(w).min()")
            sel['min'] = '.minBoth'
        elif t in ("method == 'left'", "method == 'right'"):
            ret = [st for st in node.body if isinstance(st, ast.Return)]
            m_ = ret and __import__('re').fullmatch(r"_sampling\(wave\[(\d)\], method='min'\)", ast.unparse(ret[0].value))
            if not m_: raise Refuse(f'_sampling: {t} branch')
            sel[t.split("'")[1]] = f'.operand {m_.group(1)}'
        elif t == 'np.isscalar(method)':
            if ast.unparse(node.body[0]) != 'return method': raise Refuse('_sampling: scalar branch')
            sel['scalar'] = '.given'
        else:
            raise Refuse(f'_sampling: test {t}')
        if len(node.orelse) == 1 and isinstance(node.orelse[0], ast.If): node = node.orelse[0]; continue
        break
    if set(sel) != {'min', 'left', 'right', 'scalar'}: raise Refuse(f'_sampling: options {sorted(sel)}')
    A('\n/-- what `_sampling((w1, w2), option)` selects: the smaller of both operands\' finest spacings, one operand\'s, or the number given -/')
    A('inductive SamplingSel where\n  | minBoth\n  | operand (i : Nat)\n  | given\nderiving DecidableEq, Repr')
    for k_, nm in (('min', 'samplingSelMin'), ('left', 'samplingSelLeft'), ('right', 'samplingSelRight'), ('scalar', 'samplingSelScalar')):
        A(f'def {nm} : SamplingSel := {sel[k_]}')
    # ---- Spectrum._ufunc wiring
    cls = [n for n in tree.body if isinstance(n, ast.ClassDef) and n.name == 'Spectrum'][0]
    uf = [n for n in cls.body if isinstance(n, ast.FunctionDef) and n.name == '_ufunc']
    if not uf: raise Refuse('Spectrum._ufunc not found')
    top = [st for st in uf[0].body if isinstance(st, ast.If)]
    if not top or not (isinstance(top[0].test, ast.Call) and ast.unparse(top[0].test.func) == 'isinstance' and ast.unparse(top[0].test.args[0]) == 'other'): raise Refuse('_ufunc: first dispatch')
    types = [ast.unparse(e) for e in top[0].test.args[1].elts]
    sp = top[0].orelse[0] if top[0].orelse and isinstance(top[0].orelse[0], ast.If) else None
    if sp is None or ast.unparse(sp.test) != 'isinstance(other, Spectrum)': raise Refuse('_ufunc: Spectrum branch')
    conv = [st for st in sp.body if isinstance(st, ast.If)]
    if len(conv) != 1 or ast.unparse(conv[0].test) != 'other.waveunit != self.waveunit': raise Refuse('_ufunc: unit test')
    csrc = [ast.unparse(st) for st in conv[0].body]
    copies = csrc == ['other = other.copy()', 'other.to(self.waveunit)']
    writes_self = any(isinstance(n, (ast.Assign, ast.AugAssign)) and any(ast.unparse(t).startswith('self.') for t in (n.targets if isinstance(n, ast.Assign) else [n.target])) for n in ast.walk(uf[0]))
    ret = [st for st in uf[0].body if isinstance(st, ast.Return)]
    if len(ret) != 1 or not (isinstance(ret[0].value, ast.Call) and ast.unparse(ret[0].value.func) == 'Spectrum' and len(ret[0].value.args) == 4): raise Refuse('_ufunc: return')
    ru = [ast.unparse(a) for a in ret[0].value.args[2:]]
    side = lambda x, attr: 'true' if x == f'self.{attr}' else 'false' if x == f'other.{attr}' else None
    if side(ru[0], 'waveunit') is None or side(ru[1], 'valueunit') is None: raise Refuse(f'_ufunc: result units {ru}')
    A('\n/-- `Spectrum._ufunc`: operand kinds combined element-wise on the unchanged grid -/')
    A('def ufuncElementwiseTypes : List String := [' + ', '.join(f'"{t}"' for t in types) + ']')
    A('/-- the right operand is converted to the left operand\'s wavelength unit ON A COPY (`other = other.copy(); other.to(self.waveunit)`), and `_ufunc` assigns no attribute of `self` -/')
    A(f'def ufuncConvertsCopy : Bool := {"true" if copies else "false"}')
    A(f'def ufuncWritesSelf : Bool := {"true" if writes_self else "false"}')
    A('/-- the result carries the wavelength / value unit of the left operand (`true`) or of the right one (`false`) -/')
    A(f'def ufuncResultWaveUnitFromSelf : Bool := {side(ru[0], "waveunit")}')
    A(f'def ufuncResultValueUnitFromSelf : Bool := {side(ru[1], "valueunit")}')
    # ---- _intersect: which grid points belong to an operand (range test with the guard band), and its use in _interp_common
    fi = [n for n in tree.body if isinstance(n, ast.FunctionDef) and n.name == '_intersect']
    if not fi: raise Refuse('_intersect not found')
    ib = [st for st in fi[0].body if not (isinstance(st, ast.Expr) and isinstance(st.value, ast.Constant))]
    if [a.arg for a in fi[0].args.args] != ['subset', 'superset', 'tol']: raise Refuse('_intersect: parameters')
    if not (len(ib) == 1 and isinstance(ib[0], ast.Return) and isinstance(ib[0].value, ast.Call) and ast.unparse(ib[0].value.func) == 'np.where' and len(ib[0].value.args) == 1):
        raise Refuse('_intersect: body is not `return np.where(<test>)`')
    tst = ib[0].value.args[0]
    if not (isinstance(tst, ast.BinOp) and isinstance(tst.op, ast.BitAnd)): raise Refuse('_intersect: test is not `a & b`')
    CMPS = {ast.Gt: '>', ast.Lt: '<', ast.GtE: '≥', ast.LtE: '≤'}
    def iex(e):
        k = ast.unparse(e)
        if k == 'superset': return 'w'
        if k == 'subset.min()': return 'lo'
        if k == 'subset.max()': return 'hi'
        if k == 'tol': return 'tol'
        if isinstance(e, ast.BinOp) and type(e.op) in (ast.Add, ast.Sub): return f"({iex(e.left)} {'+' if isinstance(e.op, ast.Add) else '-'} {iex(e.right)})"
        raise Refuse(f'_intersect: term {k}')
    def icmp(e):
        if not (isinstance(e, ast.Compare) and len(e.ops) == 1 and type(e.ops[0]) in CMPS): raise Refuse(f'_intersect: comparison {ast.unparse(e)}')
        return f'decide ({iex(e.left)} {CMPS[type(e.ops[0])]} {iex(e.comparators[0])})'
    A(f'\n/-- `_intersect(subset, superset, tol)`: a grid point `w` is kept when `{ast.unparse(tst)}` (lo/hi = subset.min()/max()) -/')
    A(f'def intersectKeeps (lo hi tol w : Rat) : Bool := {icmp(tst.left)} && {icmp(tst.right)}')
    uses = {}
    for st in body:
        if isinstance(st, ast.Assign) and isinstance(st.value, ast.Call) and ast.unparse(st.value.func) == '_intersect':
            uses[ast.unparse(st.targets[0])] = ast.unparse(st.value)
    if uses != {'s1_index': '_intersect(s1.wave, commonwave, tol)', 's2_index': '_intersect(s2.wave, commonwave, tol)'}: raise Refuse(f'_interp_common: _intersect calls {uses}')
    clips = {}
    for st in body:
        if isinstance(st, ast.Assign) and isinstance(st.value, ast.Call) and ast.unparse(st.value.func) == 'np.clip':
            clips[ast.unparse(st.targets[0])] = ast.unparse(st.value)
    if clips != {'s1_wave': 'np.clip(commonwave[s1_index], s1.wave.min(), s1.wave.max())', 's2_wave': 'np.clip(commonwave[s2_index], s2.wave.min(), s2.wave.max())'}: raise Refuse(f'_interp_common: clip calls {clips}')
    # ---- operators: `a + b` -> Spectrum.add -> _ufunc(np.add, …): which NumPy ufunc each operator / method ends in, argument pass-through
    NP = {'np.add': 'add', 'np.subtract': 'subtract', 'np.multiply': 'multiply', 'np.divide': 'divide', 'np.true_divide': 'divide', 'np.power': 'power'}
    cls_ = [n for n in tree.body if isinstance(n, ast.ClassDef) and n.name == 'Spectrum'][0]
    meths = {n.name: n for n in cls_.body if isinstance(n, ast.FunctionDef)}
    def nodoc(f): return [st for st in f.body if not (isinstance(st, ast.Expr) and isinstance(st.value, ast.Constant))]
    meth_op = {}
    for m_ in ('add', 'subtract', 'multiply', 'divide', 'power'):
        f = meths.get(m_)
        if f is None: raise Refuse(f'Spectrum.{m_} not found')
        a = f.args
        if [x.arg for x in a.args] != ['self', 'other', 'sampling', 'method', 'fill_value'] or [ast.unparse(d) for d in a.defaults] != ["'min'", "'linear'", '0'] or a.vararg or a.kwarg or a.kwonlyargs:
            raise Refuse(f'Spectrum.{m_}: signature/defaults')
        b_ = nodoc(f)
        if not (len(b_) == 1 and isinstance(b_[0], ast.Return) and isinstance(b_[0].value, ast.Call) and ast.unparse(b_[0].value.func) == 'self._ufunc' and not b_[0].value.keywords
                and [ast.unparse(x) for x in b_[0].value.args[1:]] == ['other', 'sampling', 'method', 'fill_value'] and ast.unparse(b_[0].value.args[0]) in NP):
            raise Refuse(f'Spectrum.{m_}: body is not `return self._ufunc(np.<ufunc>, other, sampling, method, fill_value)`')
        meth_op[m_] = NP[ast.unparse(b_[0].value.args[0])]
    dun_op = {}
    for d_ in ('__add__', '__sub__', '__mul__', '__truediv__', '__pow__'):
        f = meths.get(d_)
        if f is None: raise Refuse(f'Spectrum.{d_} not found')
        b_ = nodoc(f)
        if [x.arg for x in f.args.args] != ['self', 'other'] or not (len(b_) == 1 and isinstance(b_[0], ast.Return) and isinstance(b_[0].value, ast.Call) and not b_[0].value.keywords
                and [ast.unparse(x) for x in b_[0].value.args] == ['other'] and isinstance(b_[0].value.func, ast.Attribute) and ast.unparse(b_[0].value.func.value) == 'self'
                and b_[0].value.func.attr in meth_op):
            raise Refuse(f'Spectrum.{d_}: body is not `return self.<method>(other)`')
        dun_op[d_] = b_[0].value.func.attr
    refl = []
    for st in cls_.body:
        if isinstance(st, ast.Assign) and len(st.targets) == 1 and isinstance(st.targets[0], ast.Name) and st.targets[0].id.startswith('__'):
            if not (isinstance(st.value, ast.Name) and st.value.id in dun_op): raise Refuse(f'Spectrum: class-level alias {ast.unparse(st)}')
            refl.append((st.targets[0].id, st.value.id))
    for n_ in meths:
        if n_.startswith('__r') and n_.endswith('__') and n_ != '__repr__': raise Refuse(f'Spectrum.{n_}: reflected operator defined as a method')
    # operand order inside _ufunc: the left operand (self) is the FIRST argument of the ufunc in both branches
    calls = sorted(ast.unparse(n) for n in ast.walk(uf[0]) if isinstance(n, ast.Call) and ast.unparse(n.func) == 'ufunc')
    ic = [st for st in ast.walk(uf[0]) if isinstance(st, ast.Assign) and isinstance(st.value, ast.Call) and ast.unparse(st.value.func) == '_interp_common']
    if calls != ['ufunc(self.value, other)', 'ufunc(self_value, other_value)'] or len(ic) != 1 or ast.unparse(ic[0].targets[0]).strip('()') != 'wave, self_value, other_value' \
            or [ast.unparse(x) for x in ic[0].value.args] != ['self', 'other', 'sampling', 'method', 'fill_value']:
        raise Refuse(f'_ufunc: operand order {calls}')
    rt = [st for st in fn[0].body if isinstance(st, ast.Return)]
    if len(rt) != 1 or ast.unparse(rt[0].value).strip('()') != 'commonwave, s1_value, s2_value': raise Refuse('_interp_common: return order')
    A('\n/-- the arithmetic a Spectrum operator ends in: `a <op> b` -> `Spectrum.<method>(b)` -> `_ufunc(np.<ufunc>, b, sampling, method, fill_value)` (arguments passed through in this order, defaults \'min\', \'linear\', 0 for all five; the left operand is the first argument of the ufunc) -/')
    A('inductive ArithOp where\n  | add\n  | subtract\n  | multiply\n  | divide\n  | power\nderiving DecidableEq, Repr')
    A('def operatorOp : String → Option ArithOp\n' + '\n'.join(f'  | "{d_}" => some .{meth_op[dun_op[d_]]}' for d_ in dun_op) + '\n  | _ => none')
    A('def operatorMethod : String → Option String\n' + '\n'.join(f'  | "{d_}" => some "{dun_op[d_]}"' for d_ in dun_op) + '\n  | _ => none')
    A('def methodOp : String → Option ArithOp\n' + '\n'.join(f'  | "{m_}" => some .{meth_op[m_]}' for m_ in meth_op) + '\n  | _ => none')
    A('/-- reflected operators defined by class-level aliasing (`__rmul__ = __mul__`) -/')
    A('def reflectedAliases : List (String × String) := [' + ', '.join(f'("{a_}", "{b_}")' for a_, b_ in refl) + ']')
    # ---- Spectrum.wave setter: the three refusals (every grid an operation builds or converts goes through it)
    ws = [n for n in cls_.body if isinstance(n, ast.FunctionDef) and n.name == 'wave' and any(ast.unparse(d) == 'wave.setter' for d in n.decorator_list)]
    if len(ws) != 1: raise Refuse('Spectrum.wave setter not found')
    wb_ = nodoc(ws[0])
    if [a.arg for a in ws[0].args.args] != ['self', 'value']: raise Refuse('wave setter: parameters')
    if ast.unparse(wb_[0]) != 'value = np.asarray(value)' or ast.unparse(wb_[-1]) != 'self._wave = value': raise Refuse('wave setter: first/last statement')
    gs = wb_[1:-1]
    if len(gs) != 3 or not all(isinstance(g, ast.If) and not g.orelse and len(g.body) == 1 and isinstance(g.body[0], ast.Raise) and 'ValueError' in ast.unparse(g.body[0]) for g in gs):
        raise Refuse('wave setter: three `if …: raise ValueError` guards expected between asarray and the assignment')
    def anyarg(t):
        if not (isinstance(t, ast.Call) and ast.unparse(t.func) == 'np.any' and len(t.args) == 1 and isinstance(t.args[0], ast.Compare) and len(t.args[0].ops) == 1): raise Refuse(f'wave setter: guard {ast.unparse(t)}')
        return t.args[0]
    WC = {ast.Gt: '>', ast.Lt: '<', ast.GtE: '≥', ast.LtE: '≤', ast.Eq: '=', ast.NotEq: '≠'}
    def wex(e, env):
        k = ast.unparse(e)
        if k in env: return env[k]
        if isinstance(e, ast.Constant) and type(e.value) is int: return str(e.value)
        if isinstance(e, ast.BinOp) and type(e.op) in (ast.Add, ast.Sub): return f"({wex(e.left, env)} {'+' if isinstance(e.op, ast.Add) else '-'} {wex(e.right, env)})"
        raise Refuse(f'wave setter: term {k}')
    c0_ = anyarg(gs[0].test)
    if ast.unparse(gs[1].test) != 'not np.all(np.sort(value) == value)': raise Refuse('wave setter: sortedness guard')
    c2_ = anyarg(gs[2].test)
    if type(c0_.ops[0]) not in WC or type(c2_.ops[0]) not in WC: raise Refuse('wave setter: comparison operator')
    A('\n/-- `Spectrum.wave` setter, in source order: refuse when any `' + ast.unparse(c0_) + '`; when `np.sort(value) != value` somewhere (checked structurally); when any `' + ast.unparse(c2_) + '` (w0, w1 adjacent samples) -/')
    A(f"def waveRejectsSample (w : Rat) : Bool := decide ({wex(c0_.left, {'value': 'w'})} {WC[type(c0_.ops[0])]} {wex(c0_.comparators[0], {'value': 'w'})})")
    env_d = {'value[1:]': 'w1', 'value[:-1]': 'w0'}
    A(f"def waveRejectsStep (w0 w1 : Rat) : Bool := decide ({wex(c2_.left, env_d)} {WC[type(c2_.ops[0])]} {wex(c2_.comparators[0], env_d)})")
    return '\n'.join(L) + '\n', {'assignments': order, 'sampling': sel, 'elementwise': types}

MODULES = [{'name': 'InterpGrid', 'src': SRC, 'generator': generate, 'props': ['C13']}]
