"""C15 — the comparison operators and the scalar formulas of Spectrum.crop/integrate/ends/pad/bin (lentil/radiometry.py) as Lean
definitions over Rat: which samples crop drops / integrate keeps / trim counts as above tolerance, pad's sample counts, bin's
mid-points, end edges and the terms of the chained trapezoid / Simpson rules. The expressions are read from the source (decimal
literals exactly); array indexing is mapped to scalar parameters as listed per definition. Anything else is refused."""
import ast, os
from fractions import Fraction
from py2lean import Refuse

SRC = 'lentil/radiometry.py'

def _lit(src, node):
    if isinstance(node.value, bool) or not isinstance(node.value, (int, float)): raise Refuse(f'literal {node.value!r}')
    text = ast.get_source_segment(src, node)
    try: q = Fraction(text.replace('_', ''))
    except Exception: raise Refuse(f'numeric literal {text!r}')
    if float(q) != float(node.value): raise Refuse(f'literal {text!r} read inexactly')
    return q

CMP = {ast.Gt: '>', ast.Lt: '<', ast.GtE: '≥', ast.LtE: '≤', ast.NotEq: '≠', ast.Eq: '='}

def _expr(src, e, env):
    key = ast.unparse(e)
    if key in env: return env[key]
    if isinstance(e, ast.Constant):
        q = _lit(src, e)
        return str(q.numerator) if q.denominator == 1 else f'(({q.numerator} : Rat) / {q.denominator})'
    if isinstance(e, ast.BinOp):
        op = {ast.Mult: '*', ast.Div: '/', ast.Add: '+', ast.Sub: '-'}.get(type(e.op))
        if op is None: raise Refuse(f'operator {type(e.op).__name__}')
        return f'({_expr(src, e.left, env)} {op} {_expr(src, e.right, env)})'
    if isinstance(e, ast.Compare) and len(e.ops) == 1 and type(e.ops[0]) in CMP:
        return f'decide ({_expr(src, e.left, env)} {CMP[type(e.ops[0])]} {_expr(src, e.comparators[0], env)})'
    if isinstance(e, ast.Call) and ast.unparse(e.func) == 'int' and len(e.args) == 1 and isinstance(e.args[0], ast.Call) and ast.unparse(e.args[0].func) == 'np.ceil':
        return f'(Rat.ceil {_expr(src, e.args[0].args[0], env)})'
    raise Refuse(f'expression {key[:60]}')

def _method(cls, name):
    m = [n for n in cls.body if isinstance(n, ast.FunctionDef) and n.name == name]
    if not m: raise Refuse(f'Spectrum.{name} not found')
    return m[0]

def _find(node, pred, what):
    hits = [n for n in ast.walk(node) if pred(n)]
    if not hits: raise Refuse(what + ' not found')
    return hits

def generate(repo):
    src = open(os.path.join(repo, SRC)).read()
    tree = ast.parse(src)
    cls = [n for n in tree.body if isinstance(n, ast.ClassDef) and n.name == 'Spectrum'][0]
    L = []
    A = L.append
    # ---- crop: two guarded deletions
    crop = _method(cls, 'crop')
    ifs = [st for st in crop.body if isinstance(st, ast.If)]
    if len(ifs) != 2: raise Refuse('crop: two guarded blocks expected')
    for st, (g, d, lim, edge) in zip(ifs, (('cropLowGuard', 'cropDropLow', 'min_wave', 'self.wave[0]'), ('cropHighGuard', 'cropDropHigh', 'max_wave', 'self.wave[-1]'))):
        A(f'/-- `crop`: `{ast.unparse(st.test)}` -/')
        A(f'def {g} (lim edge : Rat) : Bool := {_expr(src, st.test, {lim: "lim", edge: "edge"})}')
        wh = [n for n in ast.walk(st) if isinstance(n, ast.Call) and ast.unparse(n.func) == 'np.where']
        if len(wh) != 1 or len(wh[0].args) != 1: raise Refuse('crop: np.where(...) selection')
        dels = [ast.unparse(n) for n in ast.walk(st) if isinstance(n, ast.Call) and ast.unparse(n.func) == 'np.delete']
        if sorted(dels) != ['np.delete(self.value, indx)', 'np.delete(self.wave, indx)']: raise Refuse(f'crop: deletions {dels}')
        A(f'/-- `crop`: a sample is deleted when `{ast.unparse(wh[0].args[0])}` -/')
        A(f'def {d} (lim w : Rat) : Bool := {_expr(src, wh[0].args[0], {lim: "lim", "self.wave": "w"})}')
    # ---- integrate: kept samples
    integ = _method(cls, 'integrate')
    inter = _find(integ, lambda n: isinstance(n, ast.Call) and ast.unparse(n.func) == 'np.intersect1d' and len(n.args) == 2, 'integrate: np.intersect1d')[0]
    conds = []
    for a in inter.args:
        if not (isinstance(a, ast.Call) and ast.unparse(a.func) == 'np.where' and len(a.args) == 1): raise Refuse('integrate: np.where arguments')
        conds.append(_expr(src, a.args[0], {'self.wave': 'w', 'start': 'a', 'end': 'b'}))
    A('/-- `integrate`: a sample is kept when both `np.where` conditions hold -/')
    A(f'def integrateKeeps (a b w : Rat) : Bool := {conds[0]} && {conds[1]}')
    # ---- integrate: default bounds (start=None / end=None)
    dflt = {}
    for st in integ.body:
        if isinstance(st, ast.If) and len(st.body) == 1 and not st.orelse and isinstance(st.body[0], ast.Assign):
            dflt[ast.unparse(st.test)] = ast.unparse(st.body[0])
    if dflt != {'start is None': 'start = np.min(self.wave)', 'end is None': 'end = np.max(self.wave)'}: raise Refuse(f'integrate: default bounds {dflt}')
    ia = integ.args
    if [x.arg for x in ia.args] != ['self', 'start', 'end', 'method'] or [ast.unparse(d) for d in ia.defaults][:2] != ['None', 'None']: raise Refuse('integrate: signature')
    A('/-- `integrate()` without bounds: `start = np.min(self.wave)`, `end = np.max(self.wave)` (wmin, wmax: smallest / largest wavelength) -/')
    A('def integrateDefaultStart (wmin wmax : Rat) : Rat := wmin')
    A('def integrateDefaultEnd (wmin wmax : Rat) : Rat := wmax')
    # ---- ends (trim): above tolerance
    ends = _method(cls, 'ends')
    nv = [st for st in ends.body if isinstance(st, ast.Assign) and ast.unparse(st.targets[0]) == 'normval']
    if not nv or ast.unparse(nv[0].value) != 'self.value / max(self.value)': raise Refuse('ends: normval')
    wh = _find(ends, lambda n: isinstance(n, ast.Call) and ast.unparse(n.func) == 'np.where', 'ends: np.where')[0]
    A('/-- `ends`: `normval = value / max(value)`, sample counted when `' + ast.unparse(wh.args[0]) + '` -/')
    A(f'def trimAbove (v m tol : Rat) : Bool := {_expr(src, wh.args[0], {"normval": "(v / m)", "tol": "tol"})}')
    g = [st for st in ends.body if isinstance(st, ast.If)]
    if not g or not isinstance(g[0].body[0], ast.Raise): raise Refuse('ends: guard')
    A(f'/-- `ends`: refusal `{ast.unparse(g[0].test)}` -/')
    A(f'def trimRefuses (m : Rat) : Bool := {_expr(src, g[0].test, {"max(self.value)": "m"})}')
    # ---- append: overlap refusal (element test of `np.any(other.wave <= self.wave)`)
    app = _method(cls, 'append')
    g = [st for st in app.body if isinstance(st, ast.If) and isinstance(st.body[0], ast.Raise) and isinstance(st.test, ast.Call) and ast.unparse(st.test.func) == 'np.any']
    if len(g) != 1 or len(g[0].test.args) != 1 or g[0].orelse: raise Refuse('append: `if np.any(<cmp>): raise` guard')
    exc = g[0].body[0].exc
    if ast.unparse(exc.func if isinstance(exc, ast.Call) else exc) != 'ValueError': raise Refuse('append: the overlap refusal is not a ValueError')
    A(f'/-- `append`: refused (ValueError) when any `{ast.unparse(g[0].test.args[0])}` (element-wise, broadcast) -/')
    A(f"def appendRefusesAt (ow sw : Rat) : Bool := {_expr(src, g[0].test.args[0], {'other.wave': 'ow', 'self.wave': 'sw'})}")
    # ---- trim: the retained slice `[index_min:index_max + 1]` (same for wave and value)
    tr = _method(cls, 'trim')
    sl = {}
    for st in tr.body:
        if isinstance(st, ast.Assign) and ast.unparse(st.targets[0]) in ('self.wave', 'self.value'):
            v = st.value
            if not (isinstance(v, ast.Subscript) and ast.unparse(v.value) == ast.unparse(st.targets[0]) and isinstance(v.slice, ast.Slice) and v.slice.step is None
                    and v.slice.lower is not None and v.slice.upper is not None):
                raise Refuse('trim: assignment is not a plain slice of the same attribute')
            sl[ast.unparse(st.targets[0])] = v.slice
    if sorted(sl) != ['self.value', 'self.wave']: raise Refuse('trim: slices of wave and value expected')
    if ast.unparse(sl['self.wave']) != ast.unparse(sl['self.value']): raise Refuse('trim: wave and value are sliced differently')
    unp = [st for st in tr.body if isinstance(st, ast.Assign) and ast.unparse(st.targets[0]).strip('()') == 'index_min, index_max']
    if len(unp) != 1 or ast.unparse(unp[0].value) != 'self.ends(tol)': raise Refuse('trim: index_min, index_max = self.ends(tol)')
    def _iexpr(e):
        k = ast.unparse(e)
        if k in ('index_min', 'index_max'): return k
        if isinstance(e, ast.Constant) and type(e.value) is int: return str(e.value)
        if isinstance(e, ast.BinOp) and type(e.op) in (ast.Add, ast.Sub): return f"({_iexpr(e.left)} {'+' if isinstance(e.op, ast.Add) else '-'} {_iexpr(e.right)})"
        raise Refuse(f'trim: slice bound {k}')
    A(f'/-- `trim`: retained slice `[{ast.unparse(sl["self.wave"])}]` of both `wave` and `value` -/')
    A(f'def trimSliceStart (index_min index_max : Int) : Int := {_iexpr(sl["self.wave"].lower)}')
    A(f'def trimSliceStop (index_min index_max : Int) : Int := {_iexpr(sl["self.wave"].upper)}')
    # ---- pad: sample counts
    pad = _method(cls, 'pad')
    for nm, ln in (('nleft', 'padNLeft'), ('nright', 'padNRight')):
        st = [x for x in ast.walk(pad) if isinstance(x, ast.Assign) and ast.unparse(x.targets[0]) == nm]
        if len(st) != 1: raise Refuse(f'pad: {nm}')
        A(f'/-- `pad`: `{nm} = {ast.unparse(st[0].value)}` -/')
        A(f'def {ln} (minwave maxwave e0 e1 dwave : Rat) : Int := {_expr(src, st[0].value, {"minwave": "minwave", "maxwave": "maxwave", "ends[0]": "e0", "ends[1]": "e1", "dwave": "dwave"})}')
    # ---- bin: mid-points, end edges, rule terms
    b = _method(cls, 'bin')
    top = [st for st in b.body if isinstance(st, ast.If) and "interp_method == 'trapz'" in ast.unparse(st.test)]
    if not top: raise Refuse('bin: method dispatch')
    trapz_body = top[0].body
    simps_if = top[0].orelse[0] if top[0].orelse and isinstance(top[0].orelse[0], ast.If) else None
    if simps_if is None or "interp_method == 'simps'" not in ast.unparse(simps_if.test): raise Refuse('bin: simps branch')
    def assign(body, name):
        st = [x for x in body if isinstance(x, ast.Assign) and ast.unparse(x.targets[0]) == name]
        if not st: raise Refuse(f'bin: {name}')
        return st[0].value
    for body, tag in ((trapz_body, 'trapz'), (simps_if.body, 'simps')):
        if ast.unparse(assign(body, 'dx')) != 'np.diff(wave) / 2': raise Refuse(f'bin/{tag}: dx')
    midT = assign(trapz_body, 'x'); midS = assign(simps_if.body, 'wave_mid')
    if ast.unparse(midT) != ast.unparse(midS): raise Refuse('bin: trapz and simps mid-points differ')
    env_mid = {'wave[0:-1]': 'c0', 'dx': '((c1 - c0) / 2)'}
    A(f'/-- `bin`: interior edge / mid-point `{ast.unparse(midT)}` with `dx = np.diff(wave)/2` (c0, c1 adjacent centres) -/')
    A(f'def binMid (c0 c1 : Rat) : Rat := {_expr(src, midT, env_mid)}')
    def sym_ends(body, tag):
        iff = [st for st in body if isinstance(st, ast.If) and "ends == 'symmetric'" in ast.unparse(st.test)]
        if not iff: raise Refuse(f'bin/{tag}: ends dispatch')
        cat = iff[0].body[0].value
        if not (isinstance(cat, ast.Call) and ast.unparse(cat.func) == 'np.concatenate'): raise Refuse(f'bin/{tag}: symmetric concatenate')
        parts = cat.args[0].elts
        if len(parts) != 3 or ast.unparse(parts[1]) != 'x': raise Refuse(f'bin/{tag}: symmetric parts')
        return parts[0].elts[0], parts[2].elts[0]
    loT, hiT = sym_ends(trapz_body, 'trapz'); loS, hiS = sym_ends(simps_if.body, 'simps')
    if ast.unparse(loT) != ast.unparse(loS) or ast.unparse(hiT) != ast.unparse(hiS): raise Refuse('bin: symmetric end edges differ between the rules')
    A(f'/-- `bin`, ends="symmetric": first edge `{ast.unparse(loT)}`, last edge `{ast.unparse(hiT)}` -/')
    A(f"def binEndLo (c0 c1 : Rat) : Rat := {_expr(src, loT, {'wave[0]': 'c0', 'dx[0]': '((c1 - c0) / 2)'})}")
    A(f"def binEndHi (cp cl : Rat) : Rat := {_expr(src, hiT, {'wave[-1]': 'cl', 'dx[-1]': '((cl - cp) / 2)'})}")
    # ---- bin, ends="inside": trapezoid end edges are the first/last centre; Simpson inserts a quarter point after the first / before the last point
    def inside_branch(body, tag):
        iff = [st for st in body if isinstance(st, ast.If) and "ends == 'symmetric'" in ast.unparse(st.test)][0]
        if not (len(iff.orelse) == 1 and isinstance(iff.orelse[0], ast.If) and ast.unparse(iff.orelse[0].test) == "ends == 'inside'"): raise Refuse(f'bin/{tag}: inside branch')
        ins = iff.orelse[0]
        if not (len(ins.orelse) == 1 and isinstance(ins.orelse[0], ast.Raise) and 'ValueError' in ast.unparse(ins.orelse[0])): raise Refuse(f'bin/{tag}: unknown ends is not a ValueError')
        return ins.body
    tin = inside_branch(trapz_body, 'trapz')
    if len(tin) != 1 or ast.unparse(tin[0]) != 'x = np.concatenate([[wave[0]], x, [wave[-1]]])': raise Refuse('bin/trapz: inside edges')
    A('/-- `bin`, trapz, ends="inside": `x = np.concatenate([[wave[0]], x, [wave[-1]]])` — first / last edge are the first / last centre -/')
    A('def binInsideEdgeLo (c0 : Rat) : Rat := c0')
    A('def binInsideEdgeHi (cl : Rat) : Rat := cl')
    sin_ = inside_branch(simps_if.body, 'simps')
    if len(sin_) != 2: raise Refuse('bin/simps: inside branch has not two insertions')
    pos = []
    for st in sin_:
        if not (isinstance(st, ast.Assign) and ast.unparse(st.targets[0]) == 'x' and isinstance(st.value, ast.Call) and ast.unparse(st.value.func) == 'np.insert'
                and len(st.value.args) == 3 and ast.unparse(st.value.args[0]) == 'x'): raise Refuse('bin/simps: inside insertion')
        pos.append(ast.literal_eval(st.value.args[1]))
    if pos != [1, -1]: raise Refuse(f'bin/simps: insertion positions {pos}')
    A(f'/-- `bin`, simps, ends="inside": `{ast.unparse(sin_[0])}` then `{ast.unparse(sin_[1])}` (x0,x1 the first two points; xl, xp the last and the one before it, AFTER the first insertion) -/')
    A(f"def binInsideLo (x0 x1 : Rat) : Rat := {_expr(src, sin_[0].value.args[2], {'x[0]': 'x0', 'x[1]': 'x1'})}")
    A(f"def binInsideHi (xl xp : Rat) : Rat := {_expr(src, sin_[1].value.args[2], {'x[-1]': 'xl', 'x[-2]': 'xp'})}")
    # ---- pad: where the new samples are placed
    def one(nm):
        st = [x for x in pad.body if isinstance(x, ast.Assign) and ast.unparse(x.targets[0]) == nm]
        if len(st) != 2: raise Refuse(f'pad: two assignments to {nm} expected')
        return st
    env_p = {'ends[0]': 'e0', 'ends[1]': 'e1', 'minwave': 'minwave', 'maxwave': 'maxwave'}
    for nm, cnt, tag in (('leftwave', 'nleft', 'Left'), ('rightwave', 'nright', 'Right')):
        ls, dl = one(nm)
        if not (isinstance(ls.value, ast.Call) and ast.unparse(ls.value.func) == 'np.linspace' and len(ls.value.args) == 3 and not ls.value.keywords and ast.unparse(ls.value.args[2]) == cnt):
            raise Refuse(f'pad: {nm} linspace')
        if not (isinstance(dl.value, ast.Call) and ast.unparse(dl.value.func) == 'np.delete' and len(dl.value.args) == 2 and ast.unparse(dl.value.args[0]) == nm):
            raise Refuse(f'pad: {nm} delete')
        A(f'/-- `pad`: `{ast.unparse(ls)}` then `{ast.unparse(dl)}` -/')
        A(f'def pad{tag}Start (e0 e1 minwave maxwave : Rat) : Rat := {_expr(src, ls.value.args[0], env_p)}')
        A(f'def pad{tag}Stop (e0 e1 minwave maxwave : Rat) : Rat := {_expr(src, ls.value.args[1], env_p)}')
        A(f'def pad{tag}Deleted : Int := {int(ast.literal_eval(dl.value.args[1]))}')
    hs = {ast.unparse(st.targets[0]): ast.unparse(st.value) for st in pad.body if isinstance(st, ast.Assign) and isinstance(st.value, ast.Call) and ast.unparse(st.value.func) == 'np.hstack'}
    if hs != {'self.wave': 'np.hstack((leftwave, self.wave, rightwave))', 'self.value': 'np.hstack((leftvalue, self.value, rightvalue))'}: raise Refuse(f'pad: hstack {hs}')
    fills = {ast.unparse(st.targets[0]): ast.unparse(st.value) for st in pad.body if isinstance(st, ast.Assign) and ast.unparse(st.targets[0]) in ('leftvalue', 'rightvalue')}
    if fills != {'leftvalue': 'values[0] * np.ones(leftwave.shape)', 'rightvalue': 'values[1] * np.ones(rightwave.shape)'}: raise Refuse(f'pad: fill values {fills}')
    def loop_term(body, tag):
        loops = [st for st in body if isinstance(st, ast.For)]
        if len(loops) != 1: raise Refuse(f'bin/{tag}: loop')
        ap = loops[0].body[0]
        if not (isinstance(ap, ast.Assign) and isinstance(ap.value, ast.Call) and ast.unparse(ap.value.func) == 'np.append' and ast.unparse(ap.value.args[0]) == 'bins'):
            raise Refuse(f'bin/{tag}: loop body')
        return loops[0], ap.value.args[1]
    lt, tt = loop_term(trapz_body, 'trapz')
    if ast.unparse(lt.iter) != 'range(1, f.size)': raise Refuse('bin/trapz: loop range')
    A(f'/-- `bin`, chained trapezoid rule: term `{ast.unparse(tt)}` (x0,x1 / f0,f1 = entries k-1, k) -/')
    A(f"def trapzTerm (x0 x1 f0 f1 : Rat) : Rat := {_expr(src, tt, {'f[k - 1]': 'f0', 'f[k]': 'f1', 'x[k - 1]': 'x0', 'x[k]': 'x1'})}")
    ls, ts = loop_term(simps_if.body, 'simps')
    if ast.unparse(ls.iter) != 'range(1, x.size, 2)': raise Refuse('bin/simps: loop range')
    A(f'/-- `bin`, chained Simpson rule: term `{ast.unparse(ts)}` (entries k-1, k, k+1; k odd) -/')
    A(f"def simpsTerm (x0 x1 x2 f0 f1 f2 : Rat) : Rat := {_expr(src, ts, {'f[k - 1]': 'f0', 'f[k]': 'f1', 'f[k + 1]': 'f2', 'x[k - 1]': 'x0', 'x[k]': 'x1', 'x[k + 1]': 'x2'})}")
    # ---- preserve_power: guarded rescaling of the bins
    pp = [st for st in b.body if isinstance(st, ast.If) and ast.unparse(st.test) == 'preserve_power']
    if len(pp) != 1: raise Refuse('bin: `if preserve_power:` block not found')
    blk = pp[0].body
    if not (len(blk) == 2 and isinstance(blk[0], ast.Assign) and ast.unparse(blk[0]) == 'total = np.sum(bins)' and isinstance(blk[1], ast.If)
            and len(blk[1].body) == 1 and not blk[1].orelse and isinstance(blk[1].body[0], ast.AugAssign) and isinstance(blk[1].body[0].op, ast.Mult)
            and ast.unparse(blk[1].body[0].target) == 'bins'):
        raise Refuse('bin: preserve_power is not `total = np.sum(bins); if <guard>: bins *= <factor>` (unguarded division by the raw sum?)')
    integ_call = 'self.integrate(np.min(wave), np.max(wave), method=interp_method)'
    A(f'/-- `bin`, preserve_power: the bins are rescaled only when `{ast.unparse(blk[1].test)}` (total = np.sum(bins)) -/')
    A(f"def binRescaleGuard (total : Rat) : Bool := {_expr(src, blk[1].test, {'total': 'total'})}")
    A(f'/-- … by the factor `{ast.unparse(blk[1].body[0].value)}` (integral = `{integ_call}`) -/')
    A(f"def binRescaleFactor (integral total : Rat) : Rat := {_expr(src, blk[1].body[0].value, {integ_call: 'integral', 'total': 'total'})}")
    return '\n'.join(L) + '\n', {}

MODULES = [{'name': 'SpectrumOps', 'src': SRC, 'generator': generate, 'props': ['C15']}]
