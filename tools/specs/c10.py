"""C10 — effect-site scan (regenerated part of the tie, DESIGN §5 C10).

For every function of lentil it lists, by a flow-sensitive intra-procedural may-alias rule plus a call-graph closure,
  (i)  in-place write sites whose target may alias a parameter (or `self`), a value returned by an `lru_cache`d function,
       or a module-level mutable;
  (ii) module-level mutable state, `np.random.<fn>` uses (global generator), `default_rng(seed)` uses (seeded).
The result is emitted as the Lean table `Gen.effTable` (Gen/Effects.lean); `Props/C10.lean` proves the frame theorems
from it, so a patch adding `R += offsetr` in `_dft2_matrices` or `img[...] = …` on an aliased argument changes the table
and a theorem stops checking.  The alias rule is a heuristic and part of the trusted base:
  alias (view of the same memory): parameters, `np.asarray/asanyarray/atleast_nd/ravel/reshape/squeeze/view/transpose/
        broadcast_to(x)`, `x.T/.real/.imag/.flat`, any other attribute of an aliased object (`self._opd`, `plane.opd`,
        `wavefront.data`), subscripts/slices of an aliased value, conditional expressions, tuples (element-wise);
  fresh: every other call result (`np.copy/np.array/np.zeros/np.where/…`, `x.copy()`, `x.astype()`), arithmetic,
        comparisons, literals, comprehensions.
Statements are walked in source order; branches are analysed separately and joined (may-alias union); loop bodies are
analysed twice."""
import ast, os, copy
from py2lean import Refuse

def _robust(gen, what):
    """a source shape the spec did not anticipate is a readable refusal (tie broken), never a crash"""
    def wrapped(repo):
        try:
            return gen(repo)
        except Refuse:
            raise
        except (AttributeError, IndexError, KeyError, TypeError, ValueError, AssertionError) as e:
            import traceback
            tb = traceback.extract_tb(e.__traceback__)[-1]
            raise Refuse(f'{what}: source has a shape this translator does not understand '
                         f'({type(e).__name__}: {e}; while reading `{(tb.line or "").strip()[:70]}`)')
    wrapped.__name__ = getattr(gen, '__name__', 'generator')
    return wrapped

ALIAS_CALLS = {'asarray', 'asanyarray', 'atleast_1d', 'atleast_2d', 'atleast_3d', 'ravel', 'reshape', 'squeeze', 'view',
               'transpose', 'broadcast_to', 'ascontiguousarray', 'swapaxes', 'moveaxis', 'diagonal',
               'flip', 'flipud', 'fliplr', 'rot90', 'expand_dims', 'rollaxis', 'real', 'imag', 'asfarray', 'asarray_chkfinite'}
# calls that alias their argument only when told not to copy
COPY_FALSE_CALLS = {'astype', 'array'}
BINARY_UFUNCS = {'add', 'subtract', 'multiply', 'divide', 'true_divide', 'floor_divide', 'power', 'maximum', 'minimum', 'mod', 'fmod',
                 'arctan2', 'hypot', 'logical_and', 'logical_or', 'greater', 'less', 'equal', 'dot', 'matmul', 'copysign', 'fmax', 'fmin'}
UNARY_UFUNCS = {'sqrt', 'exp', 'log', 'abs', 'absolute', 'floor', 'ceil', 'round', 'rint', 'negative', 'square', 'sin', 'cos', 'tan',
                'conj', 'conjugate', 'sign', 'reciprocal', 'fix', 'trunc', 'clip', 'cumsum', 'cumprod'}
VIEW_ATTRS = {'T', 'real', 'imag', 'flat'}
SCALAR_ATTRS = {'shape', 'size', 'ndim', 'dtype', 'itemsize', 'nbytes', 'start', 'stop', 'step'}
WRITE_FUNCS = {'putmask', 'place', 'copyto', 'fill_diagonal', 'put', 'put_along_axis'}
WRITE_METHODS = {'sort', 'fill', 'resize', 'itemset', 'partition', 'setflags', 'byteswap',
                 'append', 'extend', 'insert', 'pop', 'remove', 'clear', 'reverse', 'update', 'setdefault', 'popitem'}
RNG_OK = {'default_rng', 'Generator', 'SeedSequence', 'PCG64', 'RandomState', 'BitGenerator'}


def _callname(c):
    f = c.func
    return f.attr if isinstance(f, ast.Attribute) else (f.id if isinstance(f, ast.Name) else '?')


class FnScan:
    """one function: may-alias state `var -> set(roots)`; roots are parameter names, 'cache:<fn>', 'global:<name>'"""

    ret_alias = {}        # bare helper name -> [(positional index | None, parameter name)] it returns an alias of (set by scan())
    rng_imports = set()   # names imported with `from numpy.random import …`

    def __init__(self, mod, qual, node, cached, module_mut, is_method):
        self.mod, self.qual, self.node = mod, qual, node
        self.cached, self.module_mut = cached, module_mut
        a = node.args
        self.params = [x.arg for x in a.posonlyargs + a.args + a.kwonlyargs]
        self.varparams = set()
        if a.vararg: self.params.append(a.vararg.arg); self.varparams.add(a.vararg.arg)
        if a.kwarg: self.params.append(a.kwarg.arg); self.varparams.add(a.kwarg.arg)
        self.is_init = node.name == '__init__'
        self.writes = set()        # (root, kind, lineno)
        self.captures = set()      # (attribute, parameter): attribute of self initialised as an alias of a parameter
        self.global_rng = set()    # np.random.<fn> names
        self.seeded = False
        self.paths = set()         # (root, attribute) through which an in-place write goes
        self.rng_args = []         # source text of the argument of every default_rng(...) call
        self.seed_forward = []     # (callee, source text of the actual argument bound to the callee's `seed` parameter)
        self.returns = set()       # parameters the returned value may be (a view of)
        self.calls = []            # (callee bare name, [(position or keyword, roots)], receiver roots)
        self.state0 = {p: {p} for p in self.params}
        self.outer = {}            # (nested functions) aliases of the enclosing function's variables, filled by scan()
        self.locals = set(self.params)
        for n in ast.walk(node):
            if isinstance(n, ast.Name) and isinstance(n.ctx, ast.Store): self.locals.add(n.id)

    # ---- expressions
    def roots(self, e, st):
        if isinstance(e, ast.Name):
            if e.id in st: return set(st[e.id])
            if e.id not in self.locals and e.id in self.module_mut: return {'global:' + e.id}
            return set()
        if isinstance(e, ast.Attribute):
            if e.attr in SCALAR_ATTRS: return set()
            return self.roots(e.value, st)
        if isinstance(e, ast.Subscript): return self.roots(e.value, st)
        if isinstance(e, ast.Starred): return self.roots(e.value, st)
        if isinstance(e, ast.IfExp): return self.roots(e.body, st) | self.roots(e.orelse, st)
        if isinstance(e, (ast.Tuple, ast.List)):
            r = set()
            for x in e.elts: r |= self.roots(x, st)
            return r
        if isinstance(e, ast.NamedExpr): return self.roots(e.value, st)
        if isinstance(e, ast.Call):
            n = _callname(e)
            if n in self.cached: return {'cache:' + n}
            fsrc0 = ast.unparse(e.func)
            if isinstance(e.func, ast.Name) and n in ('enumerate', 'zip', 'reversed', 'list', 'tuple', 'sorted', 'iter', 'next', 'getattr', 'vars'):
                out = set()                        # the elements (or the attribute) are the originals
                for a in e.args: out |= self.roots(a, st)
                return out
            if isinstance(e.func, ast.Attribute) and n in ('values', 'items', 'get', 'copy_shallow') and not e.keywords:
                return self.roots(e.func.value, st)            # d.values(): the stored objects themselves
            if n in ('require', 'nan_to_num') and fsrc0.startswith(('np.', 'numpy.')) and e.args:
                if n == 'require' or any(kw.arg == 'copy' and isinstance(kw.value, ast.Constant) and kw.value.value is False for kw in e.keywords):
                    return self.roots(e.args[0], st)
            if fsrc0 in ('copy.copy', 'copy') and e.args: return self.roots(e.args[0], st)     # shallow copy shares every attribute
            if n in COPY_FALSE_CALLS and any(kw.arg == 'copy' and isinstance(kw.value, ast.Constant) and kw.value.value is False for kw in e.keywords):
                if isinstance(e.func, ast.Attribute) and not (isinstance(e.func.value, ast.Name) and e.func.value.id in ('np', 'numpy')):
                    return self.roots(e.func.value, st)
                return self.roots(e.args[0], st) if e.args else set()
            if n in self.ret_alias:      # lentil helper that returns (a view of) one of its arguments
                out = set()
                want_method = isinstance(e.func, ast.Attribute) and not fsrc0.startswith('lentil.')
                for pos, kwn, is_m in self.ret_alias[n]:
                    if is_m != want_method: continue
                    if pos is not None and pos < len(e.args): out |= self.roots(e.args[pos], st)
                    for kw in e.keywords:
                        if kw.arg == kwn: out |= self.roots(kw.value, st)
                    if kwn == 'self' and isinstance(e.func, ast.Attribute): out |= self.roots(e.func.value, st)
                return out
            if n in ALIAS_CALLS:
                if isinstance(e.func, ast.Attribute) and not (isinstance(e.func.value, ast.Name) and e.func.value.id in ('np', 'numpy')):
                    return self.roots(e.func.value, st)       # x.reshape(...)
                return self.roots(e.args[0], st) if e.args else set()
            return set()
        return set()

    # ---- statements
    @staticmethod
    def _first_attr(node):
        """attribute of the base object a write goes through: `plane.opd[...]`, `plane.tilt.append`, `self._opd` -> 'opd', 'tilt', '_opd'"""
        last = None
        while isinstance(node, (ast.Attribute, ast.Subscript, ast.Call)):
            if isinstance(node, ast.Attribute): last = node.attr; node = node.value
            elif isinstance(node, ast.Subscript): node = node.value
            else: node = node.func
        return last

    def w(self, roots, kind, node, direct=None, path=None):
        for r in roots:
            if path is not None and not (self.is_init and r == 'self'): self.paths.add((r, path))
            if self.is_init and r == 'self': continue       # the object under construction is not caller state
            # `**kwargs` / `*args` are fresh containers built by the call: mutating the container itself is not an effect
            if r in self.varparams and isinstance(direct, ast.Name) and direct.id == r: continue
            self.writes.add((r, kind, node.lineno))

    def visit_calls(self, e, st):
        # comprehension variables alias the elements they iterate over
        for comp in ast.walk(e):
            if isinstance(comp, (ast.ListComp, ast.SetComp, ast.GeneratorExp, ast.DictComp)):
                for g in comp.generators: self.assign(g.target, self.roots(g.iter, st), st, e if hasattr(e, 'lineno') else comp)
            if isinstance(comp, ast.NamedExpr) and isinstance(comp.target, ast.Name):
                st[comp.target.id] = self.roots(comp.value, st)               # walrus alias
        for c in ast.walk(e):
            if not isinstance(c, ast.Call): continue
            n = _callname(c)
            fsrc = ast.unparse(c.func)
            if fsrc.startswith(('np.random.', 'numpy.random.')) :
                if n in RNG_OK:
                    if n == 'default_rng':
                        self.seeded = self.seeded or ('seed' in self.params)
                        # what is handed to the generator: must be the bare parameter `seed` for the result to be a function of it
                        self.rng_args.append(ast.unparse(c.args[0]) if c.args else ', '.join(f'{k.arg}={ast.unparse(k.value)}' for k in c.keywords))
                else: self.global_rng.add(n)
            for kw in c.keywords:
                if kw.arg == 'out': self.w(self.roots(kw.value, st), 'out=', c)
            if fsrc.startswith(('np.', 'numpy.')):        # positional `out` of ufuncs / np.dot
                k_out = 2 if n in BINARY_UFUNCS else 3 if n == 'clip' else 2 if n in ('round', 'around') else 1 if n in UNARY_UFUNCS else None
                if k_out is not None and len(c.args) > k_out: self.w(self.roots(c.args[k_out], st), 'positional out', c)
            if n == 'at' and isinstance(c.func, ast.Attribute) and ast.unparse(c.func.value).startswith(('np.', 'numpy.')) and c.args:
                self.w(self.roots(c.args[0], st), 'ufunc.at', c)
            for kw in c.keywords:
                if kw.arg == 'output': self.w(self.roots(kw.value, st), 'output=', c)
            if isinstance(c.func, ast.Attribute) and not fsrc.startswith(('np.', 'numpy.')):
                mk = {'clip': 2, 'round': 1, 'cumsum': 2, 'cumprod': 2, 'conj': None}.get(n)
                if mk is not None and len(c.args) > mk: self.w(self.roots(c.args[mk], st), 'method positional out', c)
            if isinstance(c.func, ast.Name) and n == 'setattr' and c.args:
                self.w(self.roots(c.args[0], st), 'setattr()', c)
            if n in self.rng_imports or n == 'rvs' and not any(kw.arg == 'random_state' for kw in c.keywords):
                self.global_rng.add(n)
            if n in WRITE_FUNCS and fsrc.startswith(('np.', 'numpy.')) and c.args:
                self.w(self.roots(c.args[0], st), 'np.' + n, c)
            recv = set()
            if isinstance(c.func, ast.Attribute):
                recv = self.roots(c.func.value, st)
                if n in WRITE_METHODS and not fsrc.startswith(('np.', 'numpy.')): self.w(recv, '.' + n + '()', c, c.func.value, path=self._first_attr(c.func.value))
            args = [(i, self.roots(a, st)) for i, a in enumerate(c.args)] + [(kw.arg, self.roots(kw.value, st)) for kw in c.keywords if kw.arg]
            self.calls.append((n, args, recv, c))

    def assign(self, target, value_roots, st, node, value=None):
        if isinstance(target, ast.Name):
            st[target.id] = set(value_roots)
        elif isinstance(target, (ast.Tuple, ast.List)):
            if isinstance(value, (ast.Tuple, ast.List)) and len(value.elts) == len(target.elts):
                for t, v in zip(target.elts, value.elts): self.assign(t, self.roots(v, st), st, node, v)
            else:
                for t in target.elts: self.assign(t, value_roots, st, node)
        elif isinstance(target, ast.Starred):
            self.assign(target.value, value_roots, st, node)
        elif isinstance(target, ast.Subscript):
            self.w(self.roots(target.value, st), 'x[...] =', node, target.value, path=self._first_attr(target.value))
        elif isinstance(target, ast.Attribute):
            base = self.roots(target.value, st)
            self.w(base, 'x.attr =', node, path=self._first_attr(target) if isinstance(target.value, ast.Name) else self._first_attr(target.value))
            if isinstance(target.value, ast.Name) and target.value.id == 'self':
                for r in value_roots:
                    if r in self.params and r != 'self': self.captures.add((target.attr, r))

    def block(self, stmts, st):
        for s in stmts: st = self.stmt(s, st)
        return st

    @staticmethod
    def join(a, b):
        out = {}
        for k in set(a) | set(b): out[k] = set(a.get(k, ())) | set(b.get(k, ()))
        return out

    def stmt(self, s, st):
        if isinstance(s, (ast.FunctionDef, ast.AsyncFunctionDef, ast.ClassDef)): return st     # nested defs scanned separately
        if isinstance(s, ast.Assign):
            self.visit_calls(s.value, st)
            r = self.roots(s.value, st)
            for t in s.targets:
                for sub in ast.walk(t):
                    if sub is not t and isinstance(sub, ast.Call): self.visit_calls(sub, st)
                self.assign(t, r, st, s, s.value)
            return st
        if isinstance(s, ast.AnnAssign):
            if s.value is not None:
                self.visit_calls(s.value, st); self.assign(s.target, self.roots(s.value, st), st, s, s.value)
            return st
        if isinstance(s, ast.AugAssign):
            self.visit_calls(s.value, st)
            t = s.target
            if isinstance(t, ast.Name): self.w(self.roots(t, st), 'x op= (in place on ndarray)', s)
            elif isinstance(t, ast.Subscript): self.w(self.roots(t.value, st), 'x[...] op=', s, path=self._first_attr(t.value))
            elif isinstance(t, ast.Attribute): self.w(self.roots(t.value, st), 'x.attr op=', s, path=self._first_attr(t))
            return st
        if isinstance(s, ast.If):
            self.visit_calls(s.test, st)
            a = self.block(s.body, copy.deepcopy(st)); b = self.block(s.orelse, copy.deepcopy(st))
            return self.join(a, b)
        if isinstance(s, (ast.For, ast.AsyncFor)):
            self.visit_calls(s.iter, st)
            cur = copy.deepcopy(st)
            for _ in range(2):
                self.assign(s.target, self.roots(s.iter, cur), cur, s)
                cur = self.join(cur, self.block(s.body, copy.deepcopy(cur)))
            cur = self.join(cur, self.block(s.orelse, copy.deepcopy(cur)))
            return self.join(st, cur)
        if isinstance(s, ast.While):
            cur = copy.deepcopy(st)
            for _ in range(2):
                self.visit_calls(s.test, cur)
                cur = self.join(cur, self.block(s.body, copy.deepcopy(cur)))
            return self.join(st, cur)
        if isinstance(s, (ast.With, ast.AsyncWith)):
            for it in s.items:
                self.visit_calls(it.context_expr, st)
                if it.optional_vars is not None: self.assign(it.optional_vars, set(), st, s)
            return self.block(s.body, st)
        if isinstance(s, ast.Try):
            a = self.block(s.body, copy.deepcopy(st))
            out = self.join(st, a)
            for h in s.handlers: out = self.join(out, self.block(h.body, copy.deepcopy(out)))
            out = self.join(out, self.block(s.orelse, copy.deepcopy(a)))
            return self.block(s.finalbody, out)
        if isinstance(s, ast.Return):
            if s.value is not None:
                self.visit_calls(s.value, st)
                self.returns |= {r for r in self.roots(s.value, st) if r in self.params}
            return st
        if isinstance(s, ast.Delete):
            for t in s.targets:
                if isinstance(t, ast.Subscript): self.w(self.roots(t.value, st), 'del x[...]', s)
                elif isinstance(t, ast.Name): st.pop(t.id, None)
            return st
        if isinstance(s, ast.Global):
            for n in s.names: st[n] = {'global:' + n}; self.locals.discard(n)
            return st
        for ch in ast.iter_child_nodes(s):
            if isinstance(ch, ast.expr): self.visit_calls(ch, st)
        return st

    def run(self):
        st0 = copy.deepcopy(self.state0)
        for k, v in self.outer.items(): st0.setdefault(k, set(v))
        self.final_state = self.block(self.node.body, st0)
        return self


def scan(repo):
    """-> (rows, caches, module_state).  rows: {qualname: {...}}"""
    pkg = os.path.join(repo, 'lentil')
    mods = {}
    for fn in sorted(os.listdir(pkg)):
        if fn.endswith('.py'): mods[fn[:-3]] = ast.parse(open(os.path.join(pkg, fn)).read())
    caches, module_state = [], []
    cached_names, mut_by_mod = set(), {}
    for m, tree in mods.items():
        mut_by_mod[m] = set()
        for node in tree.body:
            if isinstance(node, ast.FunctionDef):
                if any('cache' in ast.unparse(d) for d in node.decorator_list):
                    caches.append(f'{m}.{node.name}'); cached_names.add(node.name)
            def _mutable_value(v):
                if isinstance(v, (ast.Dict, ast.List, ast.Set, ast.ListComp, ast.DictComp, ast.SetComp)): return True
                if isinstance(v, ast.Call):
                    fn_ = ast.unparse(v.func)
                    return fn_.split('.')[-1] in ('dict', 'list', 'set', 'OrderedDict', 'defaultdict', 'deque', 'zeros', 'ones', 'empty', 'array', 'arange', 'full')
                return False
            if isinstance(node, ast.Assign) and _mutable_value(node.value):
                for t in node.targets:
                    if isinstance(t, ast.Name) and t.id != '__all__':
                        module_state.append(f'{m}.{t.id}'); mut_by_mod[m].add(t.id)
            if isinstance(node, ast.ClassDef):
                for sub in node.body:          # class attributes holding containers/arrays are shared by all instances
                    if isinstance(sub, ast.Assign) and _mutable_value(sub.value):
                        for t in sub.targets:
                            if isinstance(t, ast.Name): module_state.append(f'{m}.{node.name}.{t.id}'); mut_by_mod[m].add(node.name)
    FnScan.rng_imports = set()
    for m, tree in mods.items():
        for node in ast.walk(tree):
            if isinstance(node, ast.ImportFrom) and node.module and node.module.startswith('numpy.random'):
                FnScan.rng_imports |= {a.asname or a.name for a in node.names if a.name not in RNG_OK}
    FnScan.ret_alias = {}
    def build():
        scans = {}
        classes = {}
        for m, tree in mods.items():
            def walk(body, prefix, cls, parent=None):
                for node in body:
                    if isinstance(node, (ast.FunctionDef, ast.AsyncFunctionDef)):
                        q = f'{prefix}.{node.name}'
                        # a property's setter (and deleter) is its own function: own row, own key (the getter keeps the plain name)
                        for d_ in node.decorator_list:
                            du = ast.unparse(d_)
                            if du.endswith(('.setter', '.deleter')): q += '.' + du.rsplit('.', 1)[1]
                        sc = FnScan(m, q, node, cached_names, mut_by_mod[m], cls is not None)
                        if parent is not None: sc.outer = {k: v for k, v in parent.final_state.items() if v}
                        sc.run()
                        sc.cls = cls
                        scans[q] = sc
                        if parent is not None:      # a closure writing a captured variable: the enclosing function may write it
                            for (r, k, l) in sc.writes:
                                if r in parent.params or r.startswith(('cache:', 'global:')): parent.writes.add((r, 'closure: ' + k, l))
                            parent.global_rng |= sc.global_rng
                        walk(node.body, q, None, sc)
                    elif isinstance(node, ast.ClassDef):
                        classes[node.name] = {'qual': f'{prefix}.{node.name}', 'bases': [ast.unparse(b).split('.')[-1] for b in node.bases]}
                        walk(node.body, f'{prefix}.{node.name}', node.name)
            walk(tree.body, m, None)
        return scans, classes
    scans, classes = build()
    # one-level return-alias summaries: a lentil function that returns (a view of) one of its parameters
    ra = {}
    for q, sc in scans.items():
        if sc.returns and not sc.is_init:
            for prm in sc.returns:
                ps = sc.params[1:] if sc.params[:1] in (['self'], ['cls']) else sc.params
                ra.setdefault(sc.node.name, []).append((ps.index(prm) if prm in ps else None, prm, sc.cls is not None))
    FnScan.ret_alias = ra
    scans, classes = build()
    by_name = {}
    for q, s in scans.items(): by_name.setdefault(s.node.name, []).append(s)

    def mro(cls):
        out, todo = [], [cls]
        while todo:
            c = todo.pop(0)
            if c in out or c not in classes: continue
            out.append(c); todo += classes[c]['bases']
        return out

    def method(cls, name, skip_self=False):
        for c in mro(cls)[1 if skip_self else 0:]:
            q = classes[c]['qual'] + '.' + name
            if q in scans: return [scans[q]]
        return []

    def resolve(caller, c):
        """callee candidates of a call, from the syntactic form of the callee expression"""
        f = c.func; n = _callname(c); src = ast.unparse(f)
        toplevel = [s for s in by_name.get(n, []) if s.qual.count('.') == 1]
        if isinstance(f, ast.Name):
            if n in classes: return method(n, '__init__')
            same = [s for s in toplevel if s.mod == caller.mod]
            return same or toplevel
        parts = src.split('.')
        if parts[0] in ('np', 'numpy', 'scipy', 'copy', 'warnings', 'math', 'ndimage', 'functools', 'os'): return []
        if src.startswith('super().'): return method(caller.cls, n, skip_self=True) if caller.cls else []
        if parts[0] == 'lentil':
            tail = parts[1:]
            if tail[-1] in classes: return method(tail[-1], '__init__')
            if len(tail) >= 2 and tail[-2] in classes: return method(tail[-2], n)
            if len(tail) >= 2:
                c2 = [s for s in toplevel if s.qual == '.'.join(tail[-2:])]
                if c2: return c2
            return toplevel
        if parts[0] == 'self' and len(parts) == 2 and caller.cls:
            got = method(caller.cls, n)
            if got: return got
        if len(parts) >= 2 and parts[-2] in classes: return method(parts[-2], n)
        if n in classes: return method(n, '__init__')
        return [s for s in by_name.get(n, []) if s.qual.count('.') >= 2 and s.cls]     # some method of that name
    for q, s in scans.items():
        if 'seed' not in s.params: continue
        for name, args, recv, cnode in s.calls:
            for callee in resolve(s, cnode):
                if 'seed' not in callee.params or callee is s: continue
                ps = callee.params[1:] if callee.params[:1] in (['self'], ['cls']) else callee.params
                k = ps.index('seed')
                actual = None
                if k < len(cnode.args): actual = ast.unparse(cnode.args[k])
                for kw in cnode.keywords:
                    if kw.arg == 'seed': actual = ast.unparse(kw.value)
                s.seed_forward.append((callee.qual, actual if actual is not None else '<not passed>'))
    rows = {q: {'writes': {(r, k) for r, k, _ in s.writes}, 'rng': set(s.global_rng), 'seeded': s.seeded,
                'captures': set(s.captures)} for q, s in scans.items()}
    changed = True
    while changed:
        changed = False
        for q, s in scans.items():
            for name, args, recv, cnode in s.calls:
                for callee in resolve(s, cnode):
                    cr = rows[callee.qual]
                    is_method = callee.params[:1] in (['self'], ['cls'])
                    if callee.is_init: recv = set()       # constructor call: `self` is the new object
                    ps = callee.params[1:] if is_method else callee.params
                    new = set()
                    for (r, k) in cr['writes']:
                        if r.startswith(('cache:', 'global:')):
                            new.add((r, f'via {callee.qual}')); continue      # global effects propagate unconditionally
                        if is_method and r == 'self': act = set(recv)
                        else:
                            act = set()
                            for key, rs in args:
                                if (isinstance(key, int) and key < len(ps) and ps[key] == r) or key == r: act |= rs
                        for x in act:
                            if s.is_init and x == 'self': continue
                            new.add((x, f'via {callee.qual}'))
                    if callee.is_init and s.is_init:
                        for (attr, prm) in list(cr['captures']):
                            for key, rs in args:
                                if (isinstance(key, int) and key < len(ps) and ps[key] == prm) or key == prm:
                                    for x in rs:
                                        if x in s.params and x != 'self' and (attr, x) not in rows[q]['captures']:
                                            rows[q]['captures'].add((attr, x)); changed = True
                    have = {r for r, _ in rows[q]['writes']}
                    for (r, k) in new:
                        if r not in have:
                            rows[q]['writes'].add((r, k)); have.add(r); changed = True
                    if cr['rng'] - rows[q]['rng']:
                        rows[q]['rng'] |= cr['rng']; changed = True
    for q, s in scans.items():
        rows[q]['public'] = all(not part.startswith('_') or (part.startswith('__') and part.endswith('__')) for part in q.split('.'))
        rows[q]['params'] = s.params
        rows[q]['sites'] = sorted(s.writes, key=lambda t: t[2])
        rows[q]['rng_args'] = list(s.rng_args); rows[q]['seed_forward'] = sorted(set(s.seed_forward))
        rows[q]['returns'] = sorted(s.returns); rows[q]['takes_seed'] = 'seed' in s.params
        rows[q]['paths'] = sorted((r, a.lstrip('_')) for r, a in s.paths if a)
    return rows, sorted(caches), sorted(module_state)


def _s(x): return '"' + x.replace('\\', '\\\\').replace('"', '\\"') + '"'

def generator(repo):
    rows, caches, module_state = scan(repo)
    out = ['''/-- one row of the effect-site scan: function, whether it is public API, the parameter slots it may write in place
(with the kind of the first write site found), attributes of `self` initialised as aliases of parameters, whether it
uses the global NumPy generator, whether it builds `default_rng(seed)`, the caches / module globals it may write -/
structure EffRow where
  fn : String
  pub : Bool
  writes : List (String × String)
  captures : List (String × String)
  globalRng : Bool
  seeded : Bool
  cacheWrites : List String
  globalWrites : List String
  /-- source text of the argument of each `np.random.default_rng(...)` call in the function -/
  rngArgs : List String := []
  /-- calls to functions that take a `seed`: (callee, source text of the argument bound to its `seed`) -/
  seedForward : List (String × String) := []
  /-- (parameter slot, attribute) through which the function's own in-place write sites go (`self.opd`, `self.tilt`) -/
  writePaths : List (String × String) := []
  /-- parameters the returned value may BE (a view/alias of): the result is then not a fresh object -/
  returnsAlias : List String := []
  /-- the function has a parameter named `seed` -/
  takesSeed : Bool := false
deriving Repr, DecidableEq
''']
    lines = []
    notes = []
    for q in sorted(rows):
        r = rows[q]
        pw = {}
        for root, kind in sorted(r['writes']):
            if root.startswith(('cache:', 'global:')): continue
            pw.setdefault(root, kind)
        cw = sorted({root[6:] for root, _ in r['writes'] if root.startswith('cache:')})
        gw = sorted({root[7:] for root, _ in r['writes'] if root.startswith('global:')})
        interesting = pw or cw or gw or r['rng'] or r['seeded'] or r['captures'] or r['public'] or r['rng_args'] or r['seed_forward'] or r['takes_seed']
        if not interesting: continue
        lines.append('  { fn := %s, pub := %s, writes := [%s], captures := [%s], globalRng := %s, seeded := %s, cacheWrites := [%s], globalWrites := [%s]%s }' % (
            _s(q), 'true' if r['public'] else 'false',
            ', '.join(f'({_s(k)}, {_s(v)})' for k, v in sorted(pw.items())),
            ', '.join(f'({_s(a.lstrip("_"))}, {_s(p)})' for a, p in sorted(r['captures'])),
            'true' if r['rng'] else 'false', 'true' if r['seeded'] else 'false',
            ', '.join(_s(x) for x in cw), ', '.join(_s(x) for x in gw),
            ((', rngArgs := [%s]' % ', '.join(_s(x) for x in r['rng_args'])) if r['rng_args'] else '') +
            ((', seedForward := [%s]' % ', '.join(f'({_s(a)}, {_s(b)})' for a, b in r['seed_forward'])) if r['seed_forward'] else '') +
            ((', writePaths := [%s]' % ', '.join(f'({_s(a)}, {_s(b)})' for a, b in sorted(set(r['paths'])))) if r['paths'] else '') +
            ((', returnsAlias := [%s]' % ', '.join(_s(a) for a in r['returns'])) if r['returns'] else '') +
            (', takesSeed := true' if r['takes_seed'] else '')))
        if pw or cw or gw or r['rng']:
            notes.append(f"{q}: writes {sorted(pw)} cache {cw} globals {gw} rng {sorted(r['rng'])}")
    out.append('def effTable : List EffRow := [\n' + ',\n'.join(lines) + '\n]\n')
    out.append('/-- functions behind `functools.lru_cache` (shared state between calls) -/\ndef effCaches : List String := [' + ', '.join(_s(c) for c in caches) + ']\n')
    out.append('/-- module-level dict/list/set objects -/\ndef effModuleState : List String := [' + ', '.join(_s(c) for c in module_state) + ']\n')
    return '\n'.join(out), notes


MODULES = [{'name': 'Effects', 'src': 'lentil/__init__.py', 'generator': _robust(generator, 'effect-site scan'), 'props': ['C10', 'C16', 'C18']}]

if __name__ == '__main__':
    import sys
    rows, caches, ms = scan(sys.argv[1] if len(sys.argv) > 1 else '/repo')
    for q in sorted(rows):
        r = rows[q]
        if r['writes'] or r['rng'] or r['seeded'] or r['captures']:
            print(q, 'PUBLIC' if r['public'] else '', sorted(r['writes']), sorted(r['rng']), 'seeded' if r['seeded'] else '', sorted(r['captures']))
    print('caches', caches); print('module state', ms)


# ---------------------------------------------------------------------------------------------- `inplace=` gates
_MUTATORS = {'append', 'extend', 'insert', 'pop', 'remove', 'clear', 'sort', 'reverse', 'update', 'fill', 'put', 'resize', 'setdefault', 'popitem',
             'itemset', 'setfield', 'setflags', 'partition', 'byteswap', '__setitem__', '__iadd__', '__isub__', '__imul__'}

def _root(e):
    while isinstance(e, (ast.Attribute, ast.Subscript, ast.Starred)): e = e.value
    return e.id if isinstance(e, ast.Name) else None

def _path(e):
    """first attribute below the root name: plane.opd[...] -> 'opd'"""
    chain = []
    while isinstance(e, (ast.Attribute, ast.Subscript)):
        if isinstance(e, ast.Attribute): chain.append(e.attr)
        e = e.value
    return chain[-1] if chain else ''

def inplace_gate_generator(repo):
    """functions with an `inplace` parameter: the gate statement (`V = self` / `V = self.copy()`), and every write site of the body classified by
    the name it goes through — the gate variable `V` (switched by the flag) or the parameter itself (would bypass the gate)"""
    pkg = os.path.join(repo, 'lentil')
    rows = []
    for fn in sorted(os.listdir(pkg)):
        if not fn.endswith('.py'): continue
        tree = ast.parse(open(os.path.join(pkg, fn)).read())
        defs = [(f'{fn[:-3]}.{n.name}', n) for n in tree.body if isinstance(n, ast.FunctionDef)]
        for c in tree.body:
            if isinstance(c, ast.ClassDef): defs += [(f'{fn[:-3]}.{c.name}.{n.name}', n) for n in c.body if isinstance(n, ast.FunctionDef)]
        for q, f in defs:
            params = [a.arg for a in f.args.args + f.args.kwonlyargs]
            if 'inplace' not in params: continue
            body = [st for st in f.body if not (isinstance(st, ast.Expr) and isinstance(st.value, ast.Constant))]
            g = body[0] if body else None
            var = tgt = other = None
            if isinstance(g, ast.If) and ast.unparse(g.test) == 'inplace' and len(g.body) == 1 and len(g.orelse) == 1 and all(
                    isinstance(x, ast.Assign) and len(x.targets) == 1 and isinstance(x.targets[0], ast.Name) for x in (g.body[0], g.orelse[0])) \
                    and g.body[0].targets[0].id == g.orelse[0].targets[0].id and isinstance(g.body[0].value, ast.Name):
                var, tgt, other = g.body[0].targets[0].id, g.body[0].value.id, ast.unparse(g.orelse[0].value)
            elif isinstance(g, ast.Assign) and len(g.targets) == 1 and isinstance(g.targets[0], ast.Name) and isinstance(g.value, ast.IfExp) \
                    and ast.unparse(g.value.test) == 'inplace' and isinstance(g.value.body, ast.Name):
                var, tgt, other = g.targets[0].id, g.value.body.id, ast.unparse(g.value.orelse)
            if var is None or tgt not in params or var == tgt: raise Refuse(f'{q}: `inplace` gate not understood: {ast.unparse(g)[:70] if g else "empty body"}')
            direct, gated = [], []
            for st in body[1:]:
                for n in ast.walk(st):
                    sites = []
                    if isinstance(n, ast.Assign): sites = [t for t in n.targets if not isinstance(t, ast.Name)]
                    elif isinstance(n, (ast.AugAssign, ast.AnnAssign)) and not isinstance(n.target, ast.Name): sites = [n.target]
                    elif isinstance(n, ast.Delete): sites = [t for t in n.targets if not isinstance(t, ast.Name)]
                    elif isinstance(n, ast.Call) and isinstance(n.func, ast.Attribute) and n.func.attr in _MUTATORS: sites = [n.func.value]
                    elif isinstance(n, ast.Call) and ast.unparse(n.func) in ('setattr', 'delattr') and n.args: sites = [ast.Attribute(value=n.args[0], attr='?', ctx=ast.Load())]
                    elif isinstance(n, ast.Call):
                        sites = [k.value for k in n.keywords if k.arg == 'out']
                    elif isinstance(n, (ast.Assign,)) and any(isinstance(t, ast.Name) and t.id in (var, tgt) for t in n.targets): raise Refuse(f'{q}: gate variable rebound')
                    for t in sites:
                        for el in (t.elts if isinstance(t, (ast.Tuple, ast.List)) else [t]):
                            r = _root(el)
                            if r == var: gated.append(_path(el))
                            elif r == tgt: direct.append(_path(el))
                    if isinstance(n, ast.Assign) and any(isinstance(t, ast.Name) and t.id in (var, tgt) for t in n.targets): raise Refuse(f'{q}: gate variable `{var}` is rebound after the gate')
            rows.append((q, tgt, var, other, sorted(set(direct)), sorted(set(gated))))
    def L(xs): return '[' + ', '.join(_s(x) for x in xs) + ']'
    text = ('/-- functions with an `inplace=` parameter, read off the source: (function, parameter the flag protects, expression worked on when the flag is\n'
            'off, attributes written DIRECTLY through the parameter — bypassing the flag —, attributes written through the gate variable) -/\n'
            'def effInplaceGates : List (String × String × String × List String × List String) := [' +
            ', '.join(f'({_s(q)}, {_s(t)}, {_s(o)}, {L(d)}, {L(gd)})' for q, t, v, o, d, gd in rows) + ']\n')
    return text, [f'{q}: {v} = {t} if inplace else {o}; direct writes {d}; gated writes {gd}' for q, t, v, o, d, gd in rows]

MODULES.append({'name': 'InplaceGate', 'src': 'lentil/plane.py', 'generator': _robust(inplace_gate_generator, '`inplace=` gates'), 'props': ['C10']})
