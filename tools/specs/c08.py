"""C08 — table generators: plane-type multiplication/propagation tables from the code, the documented tables from the
RST sources, and the ptype / multiply-override of every public plane class.

Everything here is read with `ast` (Python) or a strict grid/simple-table parser (RST) and evaluated by a tiny
interpreter for a closed fragment (constants, `lentil.<ptype>`, dict/tuple literals, ==, !=, in, not in, not, and/or,
dict[...] , dict.keys(), kwargs.pop, if/else, return, raise, simple assignment).  Anything else is refused."""
import ast, os, re
from py2lean import Refuse

PT_ORDER = ('none', 'pupil', 'image', 'tilt', 'transform')
ERRS = ('typeError', 'keyError', 'attributeError', 'valueError', 'notImplementedError', 'otherError')
ERR_OF = {'TypeError': 'typeError', 'KeyError': 'keyError', 'AttributeError': 'attributeError', 'ValueError': 'valueError', 'NotImplementedError': 'notImplementedError'}


PTYPE_WITH = {}
# ------------------------------------------------------------------------------------------- mini interpreter
class _Raise(Exception):
    def __init__(self, name): self.name = name

class _Return(Exception):
    def __init__(self, v): self.v = v

class _Fn:
    """a module-level function known to the interpreter (truthy as an object, callable through `call`)"""
    def __init__(self, node): self.node = node

class PT(str):
    """a plane type value (`lentil.pupil`, ...)"""

class _Obj:
    """an object with attributes (identity matters: two _Obj with equal attributes are different objects)"""
    def __init__(self, **kw): self.__dict__.update(kw)

def _ev(e, env, fns, ptypes):
    if isinstance(e, ast.Constant):
        if e.value is None or isinstance(e.value, (bool, str)): return e.value
        raise Refuse(f'constant {e.value!r}')
    if isinstance(e, ast.Name):
        if e.id in env: return env[e.id]
        if e.id in fns: return fns[e.id]
        raise Refuse(f'unknown name {e.id}')
    if isinstance(e, ast.Attribute) and isinstance(e.value, ast.Name) and e.value.id != 'lentil' and isinstance(env.get(e.value.id), _Obj):
        o = env[e.value.id]
        if not hasattr(o, e.attr): raise _Raise('AttributeError')
        return getattr(o, e.attr)
    if isinstance(e, ast.Attribute) and isinstance(e.value, ast.Name) and e.value.id == 'lentil':
        if e.attr in ptypes: return PT(e.attr)
        raise Refuse(f'lentil.{e.attr} is not a plane type')
    if isinstance(e, ast.Tuple): return tuple(_ev(x, env, fns, ptypes) for x in e.elts)
    if isinstance(e, ast.Dict):
        return {_ev(k, env, fns, ptypes): _ev(v, env, fns, ptypes) for k, v in zip(e.keys, e.values)}
    if isinstance(e, ast.UnaryOp) and isinstance(e.op, ast.Not): return not _truth(_ev(e.operand, env, fns, ptypes))
    if isinstance(e, ast.BoolOp):
        vals = [_truth(_ev(x, env, fns, ptypes)) for x in e.values]
        return all(vals) if isinstance(e.op, ast.And) else any(vals)
    if isinstance(e, ast.Compare) and len(e.ops) == 1:
        a = _ev(e.left, env, fns, ptypes); b = _ev(e.comparators[0], env, fns, ptypes); op = e.ops[0]
        if isinstance(op, ast.Eq): return a == b
        if isinstance(op, ast.NotEq): return a != b
        if isinstance(op, ast.Is): return a is b if (a is None or b is None or isinstance(a, _Obj) or isinstance(b, _Obj)) else _refuse('is')
        if isinstance(op, ast.IsNot): return a is not b if (a is None or b is None or isinstance(a, _Obj) or isinstance(b, _Obj)) else _refuse('is not')
        if isinstance(op, (ast.In, ast.NotIn)):
            if not isinstance(b, (tuple, list, dict)): raise Refuse('membership in a non-container')
            r = a in b
            return r if isinstance(op, ast.In) else not r
        raise Refuse(f'comparison {type(op).__name__}')
    if isinstance(e, ast.Subscript):
        d = _ev(e.value, env, fns, ptypes); k = _ev(e.slice, env, fns, ptypes)
        if not isinstance(d, dict): raise Refuse('subscript of a non-dict')
        if k not in d: raise _Raise('KeyError')
        return d[k]
    if isinstance(e, ast.Call):
        f = e.func
        if isinstance(f, ast.Attribute) and f.attr == 'keys' and not e.args and not e.keywords:
            d = _ev(f.value, env, fns, ptypes)
            if not isinstance(d, dict): raise Refuse('.keys() of a non-dict')
            return list(d.keys())
        if isinstance(f, ast.Attribute) and f.attr == 'pop' and len(e.args) == 2 and not e.keywords:
            d = _ev(f.value, env, fns, ptypes)
            if not isinstance(d, dict): raise Refuse('.pop of a non-dict')
            return d.pop(_ev(e.args[0], env, fns, ptypes), _ev(e.args[1], env, fns, ptypes))
        if isinstance(f, ast.Name) and f.id in fns and not e.keywords:
            return call(fns[f.id], [_ev(a, env, fns, ptypes) for a in e.args], {}, fns, ptypes)
        raise Refuse(f'call {ast.unparse(e)[:60]}')
    raise Refuse(f'expression {ast.unparse(e)[:60]}')

def _refuse(what): raise Refuse(what)

def _truth(v):
    if isinstance(v, _Obj): return True
    if v is None or isinstance(v, (bool, str, tuple, list, dict, _Fn)): return bool(v)
    raise Refuse('truth value of ' + repr(v))

def _exec(stmts, env, fns, ptypes):
    for st in stmts:
        if isinstance(st, ast.Expr) and isinstance(st.value, ast.Constant) and isinstance(st.value.value, str): continue
        if isinstance(st, ast.Pass): continue
        if isinstance(st, ast.If):
            _exec(st.body if _truth(_ev(st.test, env, fns, ptypes)) else st.orelse, env, fns, ptypes)
        elif isinstance(st, ast.Return):
            raise _Return(None if st.value is None else _ev(st.value, env, fns, ptypes))
        elif isinstance(st, ast.Raise):
            x = st.exc
            if isinstance(x, ast.Call): x = x.func
            if not isinstance(x, ast.Name): raise Refuse('raise of ' + ast.unparse(st)[:60])
            raise _Raise(x.id)
        elif isinstance(st, ast.Assign) and len(st.targets) == 1 and isinstance(st.targets[0], ast.Name):
            env[st.targets[0].id] = _ev(st.value, env, fns, ptypes)
        else:
            raise Refuse(f'statement {ast.unparse(st)[:60]}')

def call(fn, args, kwargs, fns, ptypes):
    a = fn.node.args
    if a.vararg or a.kwonlyargs or a.posonlyargs or a.kwarg: raise Refuse(f'{fn.node.name}: signature')
    names = [x.arg for x in a.args]
    env = {}
    defaults = dict(zip(names[len(names) - len(a.defaults):], a.defaults))
    for n, d in defaults.items(): env[n] = _ev(d, {}, fns, ptypes)
    for n, v in zip(names, args): env[n] = v
    env.update(kwargs)
    if set(names) - set(env): raise Refuse(f'{fn.node.name}: missing arguments')
    try:
        _exec(fn.node.body, env, fns, ptypes)
    except _Return as r:
        return r.v
    return None


# ------------------------------------------------------------------------------------------- sources
def _parse(repo, rel):
    return ast.parse(open(os.path.join(repo, rel)).read())

def _toplevel(tree, kind):
    return {n.name: n for n in tree.body if isinstance(n, kind)}

def _ptypes(repo):
    tree = _parse(repo, 'lentil/ptype.py')
    for n in tree.body:
        if isinstance(n, ast.Assign) and ast.unparse(n.targets[0]) == 'PTYPES':
            v = ast.literal_eval(n.value)
            if not (isinstance(v, tuple) and all(isinstance(x, str) for x in v)): raise Refuse('PTYPES is not a tuple of strings')
            if tuple(v) != PT_ORDER: raise Refuse(f'PTYPES changed: {v}')
            break
    else:
        raise Refuse('PTYPES not found')
    # lentil.ptype(None) -> 'none'
    f = _toplevel(tree, ast.FunctionDef).get('ptype')
    if f is None or not any(isinstance(n, ast.If) and ast.unparse(n) == "if ptype is None:\n    ptype = 'none'" for n in f.body):
        raise Refuse("ptype(): None -> 'none' rule not found")
    # PType.__eq__ / __hash__ (anchor of C08): equality must be equality of the keys for *any* two PType objects — also ones
    # that did not come from the same factory call (copies, unpickled planes, PType(...) built directly); the tables below
    # are evaluated with key equality, which is sound only then. Evaluated on distinct objects for all 25 pairs.
    cls = _toplevel(tree, ast.ClassDef).get('PType')
    if cls is None: raise Refuse('class PType not found')
    meth = {n.name: n for n in cls.body if isinstance(n, ast.FunctionDef)}
    if '__eq__' not in meth or '__hash__' not in meth: raise Refuse('PType.__eq__/__hash__ not found')
    init = meth.get('__init__')
    if init is None or 'self._key = ptype' not in ast.unparse(init): raise Refuse('PType.__init__ does not store the key in _key')
    for a in v:
        for b in v:
            x, y = _Obj(_key=a), _Obj(_key=b)
            for (l, r) in ((x, y), (x, x)):
                try:
                    got = call(_Fn(meth['__eq__']), [l, r], {}, {}, v)
                except _Raise as e:
                    raise Refuse(f'PType.__eq__ raises {e.name}')
                want = (l._key == r._key)
                if got is not want: raise Refuse(f"PType.__eq__ is not equality of keys: two objects with keys ({l._key!r}, {r._key!r}) compare {got!r}")
    if ast.unparse(meth['__hash__'].body[-1]) != 'return hash(self._key)': raise Refuse('PType.__hash__ is not hash of the key')
    if '__ne__' in meth: raise Refuse('PType.__ne__ defined')
    # TiltInterface.__init__ tests `if not ptype:` on a caller-supplied plane type: every PType object must be truthy
    # (the tables are evaluated with truthy plane-type values)
    for nm in ('__bool__', '__len__'):
        if nm in meth: raise Refuse(f'PType.{nm} defined: plane types are no longer unconditionally truthy (TiltInterface tests `if not ptype`)')
    # the names lentil.<ptype> are bound in lentil/__init__.py
    init = open(os.path.join(repo, 'lentil/__init__.py')).read()
    for p in v:
        if not re.search(rf"(?m)^{p}\s*=\s*ptype\('{p}'\)", init): raise Refuse(f'lentil.{p} not bound to ptype({p!r})')
    return v

def _wtypes(repo, ptypes):
    """the types a Wavefront may carry: the tuple in the Wavefront.ptype setter"""
    tree = _parse(repo, 'lentil/wavefront.py')
    cls = _toplevel(tree, ast.ClassDef).get('Wavefront')
    if cls is None: raise Refuse('class Wavefront not found')
    for n in cls.body:
        if isinstance(n, ast.FunctionDef) and n.name == 'ptype' and any('setter' in ast.unparse(d) for d in n.decorator_list):
            for sub in ast.walk(n):
                if isinstance(sub, ast.Compare) and isinstance(sub.ops[0], ast.NotIn) and isinstance(sub.comparators[0], ast.Tuple):
                    w = tuple(_ev(x, {}, {}, ptypes) for x in sub.comparators[0].elts)
                    return tuple(str(x) for x in w)
    raise Refuse('Wavefront.ptype setter: allowed tuple not found')

def _lean_ctor(s): return '.' + s

def code_tables(repo):
    ptypes = _ptypes(repo)
    wtypes = _wtypes(repo, ptypes)
    if wtypes != ('none', 'pupil', 'image'): raise Refuse(f'wavefront types changed: {wtypes}')
    plane = _parse(repo, 'lentil/plane.py')
    fns = {k: _Fn(v) for k, v in _toplevel(plane, ast.FunctionDef).items() if k in ('_can_mul_ptype', '_mul_result_ptype')}
    if len(fns) != 2: raise Refuse('_can_mul_ptype/_mul_result_ptype not found')
    table = None
    for n in plane.body:
        if isinstance(n, ast.Assign) and ast.unparse(n.targets[0]) == '_mul_ptype_table':
            table = _ev(n.value, {}, {}, ptypes)
    if not isinstance(table, dict): raise Refuse('_mul_ptype_table not found')
    genv = {'_mul_ptype_table': table}
    # Plane.multiply: guard, result type, hand-over to the new wavefront
    cls = _toplevel(plane, ast.ClassDef)
    mul = [n for n in cls['Plane'].body if isinstance(n, ast.FunctionDef) and n.name == 'multiply']
    if not mul: raise Refuse('Plane.multiply not found')
    body = [s for s in mul[0].body if not (isinstance(s, ast.Expr) and isinstance(s.value, ast.Constant))]
    g = body[0]
    if not (isinstance(g, ast.If) and ast.unparse(g.test) == 'not _can_mul_ptype(wavefront.ptype, self.ptype)'
            and len(g.body) == 1 and isinstance(g.body[0], ast.Raise) and not g.orelse):
        raise Refuse('Plane.multiply: ptype guard is not the first statement')
    exc = g.body[0].exc
    guard_exc = (exc.func if isinstance(exc, ast.Call) else exc).id
    src = ast.unparse(mul[0])
    if 'ptype = _mul_result_ptype(wavefront.ptype, self.ptype)' not in src or not re.search(r'Wavefront\.empty\([^)]*ptype=ptype', src):
        raise Refuse('Plane.multiply: result ptype hand-over not found')
    # no way out of Plane.multiply other than the guard's raise and the final `return out`, where `out` is the wavefront
    # built by Wavefront.empty(..., ptype=ptype): an early return would hand back a wavefront whose type the table did not set
    rets = [n for n in ast.walk(mul[0]) if isinstance(n, ast.Return)]
    if len(rets) != 1 or rets[0] is not body[-1] or ast.unparse(rets[0]) != 'return out':
        raise Refuse('Plane.multiply: a return other than the final `return out` (result type would bypass the ptype table)')
    outs = [n for n in ast.walk(mul[0]) if isinstance(n, ast.Assign) and any(ast.unparse(t) == 'out' for t in n.targets)]
    if len(outs) != 1 or not re.match(r'(lentil\.)?Wavefront\.empty\(', ast.unparse(outs[0].value)) or 'ptype=ptype' not in ast.unparse(outs[0].value):
        raise Refuse('Plane.multiply: `out` is not built once by Wavefront.empty(..., ptype=ptype)')
    if any(isinstance(n, (ast.Raise, ast.Try)) for st in body[1:] for n in ast.walk(st)):
        raise Refuse('Plane.multiply: raise/try after the ptype guard')
    # statements between the guard and the result must not touch the operands' ptype
    if re.search(r'(wavefront|self)\.(_)?ptype\s*=[^=]', src): raise Refuse('Plane.multiply assigns a ptype')

    def run(fname, args):
        f = fns[fname]
        # module globals visible to the functions
        node = f.node
        env_fns = dict(fns)
        class _G(dict): pass
        try:
            a = node.args
            names = [x.arg for x in a.args]
            env = dict(genv); env.update(zip(names, args))
            try:
                _exec(node.body, env, env_fns, ptypes)
            except _Return as r:
                return ('ok', r.v)
            return ('ok', None)
        except _Raise as r:
            return ('exc', r.name)

    cells = {}
    for w in wtypes:
        for p in ptypes:
            try:
                can = run('_can_mul_ptype', [PT(w), PT(p)])
                if can[0] == 'exc': cells[(w, p)] = ('exc', can[1]); continue
                if not isinstance(can[1], bool): raise Refuse('_can_mul_ptype does not return a bool')
                if not can[1]: cells[(w, p)] = ('exc', guard_exc); continue
                res = run('_mul_result_ptype', [PT(w), PT(p)])
                if res[0] == 'exc': cells[(w, p)] = res; continue
                if not isinstance(res[1], PT): raise Refuse(f'_mul_result_ptype({w},{p}) is not a plane type')
                # Wavefront.empty(ptype=...) goes through the Wavefront.ptype setter: TypeError outside the wavefront types
                cells[(w, p)] = ('ok', str(res[1])) if str(res[1]) in wtypes else ('exc', 'TypeError')
            except _Raise as r:
                cells[(w, p)] = ('exc', r.name)
    # propagation typing
    prop = _parse(repo, 'lentil/propagate.py')
    pf = _toplevel(prop, ast.FunctionDef).get('_propagate_ptype')
    if pf is None: raise Refuse('_propagate_ptype not found')
    for name in ('propagate_dft', 'propagate_fft'):
        f = _toplevel(prop, ast.FunctionDef).get(name)
        s = ast.unparse(f) if f else ''
        if "ptype_out = _propagate_ptype(wavefront.ptype, method='fraunhofer')" not in s or not re.search(r'Wavefront\.empty\([^)]*ptype=ptype_out', s):
            raise Refuse(f'{name}: ptype hand-over not found')
    # propagate_fft: position of the tilt refusal relative to the ptype check
    ff = _toplevel(prop, ast.FunctionDef)['propagate_fft']
    fbody = [st for st in ff.body if not (isinstance(st, ast.Expr) and isinstance(st.value, ast.Constant))]
    i_ptype = next(i for i, st in enumerate(fbody) if 'ptype_out = _propagate_ptype(' in ast.unparse(st))
    tilt_ifs = [(i, st) for i, st in enumerate(fbody) if isinstance(st, ast.If) and ast.unparse(st.test) == '_has_tilt(wavefront)']
    if len(tilt_ifs) != 1 or len(tilt_ifs[0][1].body) != 1 or not isinstance(tilt_ifs[0][1].body[0], ast.Raise) or tilt_ifs[0][1].orelse:
        raise Refuse('propagate_fft: `if _has_tilt(wavefront): raise …` not found')
    i_tilt = tilt_ifs[0][0]
    texc = tilt_ifs[0][1].body[0].exc
    tilt_exc = (texc.func if isinstance(texc, ast.Call) else texc).id
    if any(isinstance(n, (ast.Raise, ast.Return)) for st in fbody[:min(i_tilt, i_ptype)] for n in ast.walk(st)): raise Refuse('propagate_fft: an exit before both checks')
    pcells = {}
    for w in wtypes:
        try:
            r = call(_Fn(pf), [PT(w)], {'method': 'fraunhofer'}, {}, ptypes)
            if not isinstance(r, PT): raise Refuse(f'_propagate_ptype({w}) returns {r!r}')
            pcells[w] = ('ok', str(r)) if str(r) in wtypes else ('exc', 'TypeError')
        except _Raise as e:
            pcells[w] = ('exc', e.name)
    fftcells = {}
    for t in (False, True):
        for w in wtypes:
            if t and (i_tilt < i_ptype or pcells[w][0] == 'ok'): fftcells[(t, w)] = ('exc', tilt_exc)
            else: fftcells[(t, w)] = pcells[w]
    return ptypes, wtypes, cells, pcells, fftcells


# ------------------------------------------------------------------------------------------- classes
def class_table(repo, ptypes):
    plane = _parse(repo, 'lentil/plane.py')
    classes = _toplevel(plane, ast.ClassDef)
    init_src = _parse(repo, 'lentil/__init__.py')
    public = None
    for n in init_src.body:
        if isinstance(n, ast.ImportFrom) and n.module == 'lentil.plane': public = [a.name for a in n.names]
    if not public: raise Refuse('public plane classes not found in lentil/__init__.py')
    # attribute inventories for the "does the custom multiply reference things that exist" scan
    field_defs = {n.name for n in _parse(repo, 'lentil/field.py').body if isinstance(n, (ast.FunctionDef, ast.ClassDef))}
    wf = _toplevel(_parse(repo, 'lentil/wavefront.py'), ast.ClassDef)['Wavefront']
    wf_attrs = {n.name for n in wf.body if isinstance(n, ast.FunctionDef)}
    for n in ast.walk(wf):
        if isinstance(n, ast.Attribute) and isinstance(n.value, ast.Name) and n.value.id == 'self' and isinstance(n.ctx, ast.Store):
            wf_attrs.add(n.attr)
    wf_init = [n for n in wf.body if isinstance(n, ast.FunctionDef) and n.name == '__init__'][0]
    wf_kwargs = {a.arg for a in wf_init.args.args}

    def base_of(c):
        b = classes[c].bases
        if len(b) != 1 or not isinstance(b[0], ast.Name): raise Refuse(f'class {c}: bases')
        return b[0].id

    def method(c, name):
        for n in classes[c].body:
            if isinstance(n, ast.FunctionDef) and n.name == name: return n
        return None

    def default_ptype(c):
        """ptype of c(...) when the caller passes no ptype"""
        init = method(c, '__init__')
        if c == 'Plane':
            a = init.args
            names = [x.arg for x in a.args]
            d = dict(zip(names[len(names) - len(a.defaults):], a.defaults))
            if 'ptype' not in d or ast.unparse(d['ptype']) != 'None': raise Refuse('Plane.__init__: ptype default')
            if 'self._ptype = lentil.ptype(ptype)' not in ast.unparse(init): raise Refuse('Plane.__init__: _ptype assignment')
            return 'none'
        if init is None: return default_ptype(base_of(c))
        env = {'kwargs': {}}
        pre = []
        sup = None
        for st in init.body:
            if isinstance(st, ast.Expr) and isinstance(st.value, ast.Call) and ast.unparse(st.value.func) == 'super().__init__':
                sup = st.value; break
            pre.append(st)
        if sup is None: raise Refuse(f'{c}.__init__: super().__init__ call not found')
        kw = {k.arg: k.value for k in sup.keywords if k.arg}
        if 'ptype' not in kw: return default_ptype(base_of(c))
        # evaluate the statements that can bind `ptype` before the call (others are skipped when they do not mention it)
        for st in pre:
            if 'ptype' in ast.unparse(st): _exec([st], env, {}, ptypes)
        v = _ev(kw['ptype'], env, {}, ptypes)
        if v is None: return default_ptype(base_of(c))
        if not isinstance(v, PT): raise Refuse(f'{c}.__init__: ptype is {v!r}')
        return str(v)

    def multiply_kind(c):
        """('table', forced ptype or None) when multiply is Plane.multiply possibly wrapped by super().multiply;
        ('custom', [missing attributes]) when the class replaces it"""
        m = method(c, 'multiply')
        if m is None:
            return multiply_kind(base_of(c)) if c != 'Plane' else ('table', None)
        if c == 'Plane': return ('table', None)
        body = [s for s in m.body if not (isinstance(s, ast.Expr) and isinstance(s.value, ast.Constant))]
        # statements that precede the delegation to super().multiply (which performs the ptype check) do not change the result
        # type; they are recorded separately by writes_before_super() and must be effect-free (theorem no_write_before_guard)
        k0 = next((i for i, st in enumerate(body) if 'super().multiply(' in ast.unparse(st)), None)
        if k0 is not None and k0 > 0 and all(isinstance(st, (ast.Assign, ast.AugAssign, ast.Expr)) for st in body[:k0]): body = body[k0:]
        if body and ast.unparse(body[0]) == 'wavefront = super().multiply(wavefront)' and ast.unparse(body[-1]) == 'return wavefront':
            forced = None
            for st in body[1:-1]:
                s = ast.unparse(st)
                if s.startswith('wavefront.ptype ='):
                    v = _ev(st.value, {}, {}, ptypes)
                    if not isinstance(v, PT): raise Refuse(f'{c}.multiply: forced ptype')
                    forced = str(v)
                elif 'ptype' in s:
                    raise Refuse(f'{c}.multiply: touches ptype: {s[:60]}')
            inner = multiply_kind(base_of(c))
            if inner[0] != 'table': return inner
            return ('table', forced if forced is not None else inner[1])
        # custom body: which referenced attributes do not exist?
        missing = []
        param = m.args.args[1].arg if len(m.args.args) > 1 else None
        for n in ast.walk(m):
            if isinstance(n, ast.Attribute):
                s = ast.unparse(n)
                if s.startswith('lentil.field.') and s.count('.') == 2 and n.attr not in field_defs: missing.append(s)
                if isinstance(n.value, ast.Name) and n.value.id == param and n.attr not in wf_attrs: missing.append(f'Wavefront.{n.attr}')
            if isinstance(n, ast.Call) and ast.unparse(n.func) in ('lentil.Wavefront', 'Wavefront'):
                for k in n.keywords:
                    if k.arg and k.arg not in wf_kwargs: missing.append(f'Wavefront(…{k.arg}=)')
        # a structural rule for what a custom body does to the plane type: it keeps the argument's type when the object it
        # returns is the argument, a copy of it, or a Wavefront constructed with (p|plane)type=<argument>.(p|plane)type
        keeps = False
        rets = [n.value for n in ast.walk(m) if isinstance(n, ast.Return) and n.value is not None]
        srcs = {}
        for n in ast.walk(m):
            if isinstance(n, ast.Assign) and len(n.targets) == 1 and isinstance(n.targets[0], ast.Name): srcs.setdefault(n.targets[0].id, n.value)
        def keeps_type(e, depth=0):
            if isinstance(e, ast.Name):
                if e.id == param: return True
                return depth < 3 and e.id in srcs and keeps_type(srcs[e.id], depth + 1)
            if isinstance(e, ast.Call):
                f = ast.unparse(e.func)
                if f in (f'{param}.copy', 'copy.copy', 'copy.deepcopy') : return True
                if f in ('lentil.Wavefront', 'Wavefront', 'lentil.Wavefront.empty', 'Wavefront.empty'):
                    return any(k.arg in ('ptype', 'planetype') and ast.unparse(k.value) in (f'{param}.ptype', f'{param}.planetype') for k in e.keywords)
            return False
        keeps = bool(rets) and all(keeps_type(r) for r in rets)
        return ('custom', sorted(set(missing)), keeps)

    MUTATORS = ('append', 'extend', 'insert', 'pop', 'remove', 'clear', 'update', 'sort', 'reverse', 'fill', 'setdefault')

    def writes_before_super(c):
        """attribute writes on the two operands (`self`, the wavefront parameter) that a `multiply` override performs BEFORE it
        delegates to super().multiply — i.e. before the ptype check could refuse the operation. For a class that inherits
        multiply: the list of the class it inherits from; for a body that never delegates (Rotate, Flip): writes anywhere."""
        m = method(c, 'multiply')
        if m is None: return writes_before_super(base_of(c)) if c != 'Plane' else []
        if c == 'Plane': return []      # guard-first is checked in code_tables()
        params = {a.arg for a in m.args.args[:2]}
        body = [st for st in m.body if not (isinstance(st, ast.Expr) and isinstance(st.value, ast.Constant))]
        k0 = next((i for i, st in enumerate(body) if 'super().multiply(' in ast.unparse(st)), len(body))
        def root(n):
            while isinstance(n, (ast.Attribute, ast.Subscript)): n = n.value
            return n.id if isinstance(n, ast.Name) else None
        out = []
        for st in body[:k0]:
            for n in ast.walk(st):
                tg = []
                if isinstance(n, ast.Assign): tg = n.targets
                elif isinstance(n, (ast.AugAssign, ast.AnnAssign)): tg = [n.target]
                elif isinstance(n, ast.Delete): tg = n.targets
                for t in tg:
                    for e in (t.elts if isinstance(t, ast.Tuple) else [t]):
                        if isinstance(e, (ast.Attribute, ast.Subscript)) and root(e) in params: out.append(ast.unparse(e))
                if isinstance(n, ast.Call) and isinstance(n.func, ast.Attribute) and n.func.attr in MUTATORS and root(n.func.value) in params:
                    out.append(ast.unparse(n.func) + '()')
                if isinstance(n, ast.Call) and isinstance(n.func, ast.Name) and n.func.id == 'setattr' and n.args and root(n.args[0]) in params:
                    out.append(ast.unparse(n)[:40])
        inner = writes_before_super(base_of(c)) if k0 < len(body) else []
        return out + inner

    def ptype_with(c, p, depth=0):
        """ptype of c(..., ptype=<PType p>) — a caller-supplied plane type handed in as keyword — or None when the constructor
        call fails with TypeError (no such parameter / the keyword reaches the base constructor twice)"""
        if depth > 8: raise Refuse(f'{c}: constructor chain too deep')
        init = method(c, '__init__')
        if init is None:
            if c == 'Plane': raise Refuse('Plane.__init__ not found')
            return ptype_with(base_of(c), p, depth + 1)
        a = init.args
        names = [x.arg for x in a.args] + [x.arg for x in a.kwonlyargs]
        if 'ptype' in names:
            if c != 'Plane': raise Refuse(f'{c}.__init__: explicit ptype parameter')
            default_ptype('Plane')          # checks `self._ptype = lentil.ptype(ptype)`
            return p
        if a.kwarg is None: return None     # TypeError: unexpected keyword argument 'ptype'
        kwn = a.kwarg.arg
        pre, sup = [], None
        for st in init.body:
            if isinstance(st, ast.Expr) and isinstance(st.value, ast.Call) and ast.unparse(st.value.func) == 'super().__init__':
                sup = st.value; break
            pre.append(st)
        if sup is None: raise Refuse(f'{c}.__init__: super().__init__ call not found')
        env = {kwn: {'ptype': PT(p)}}
        for st in pre:
            if 'ptype' in ast.unparse(st) or kwn in ast.unparse(st): _exec([st], env, {}, ptypes)
        passes = any(k.arg is None and ast.unparse(k.value) == kwn for k in sup.keywords)
        if any(k.arg is None and ast.unparse(k.value) != kwn for k in sup.keywords): raise Refuse(f'{c}.__init__: ** of something else')
        kw = {k.arg: k.value for k in sup.keywords if k.arg}
        still = 'ptype' in env[kwn]
        if 'ptype' in kw:
            if still and passes: return None                  # TypeError: multiple values for keyword argument 'ptype'
            v = _ev(kw['ptype'], env, {}, ptypes)
            if v is None: return default_ptype(base_of(c))
            if not isinstance(v, PT): raise Refuse(f'{c}.__init__: ptype is {v!r}')
            return ptype_with(base_of(c), str(v), depth + 1)
        if still and passes: return ptype_with(base_of(c), p, depth + 1)
        return default_ptype(base_of(c))

    global PTYPE_WITH
    PTYPE_WITH = {(c, p): ptype_with(c, p) for c in public for p in ptypes}
    out = []
    for c in public:
        if c not in classes: raise Refuse(f'public class {c} not defined in plane.py')
        out.append((c, default_ptype(c), multiply_kind(c), writes_before_super(c)))
    return out


# ------------------------------------------------------------------------------------------- documentation
def _rst_section(text, title):
    m = re.search(rf'(?mi)^{re.escape(title)}[ \t]*\n[=\-~^"]{{3,}}[ \t]*\n', text)
    if not m: return text        # section renamed: search the whole page for the table
    rest = text[m.end():]
    n = re.search(r'(?m)^\S.*\n[=\-~]{3,}\n', rest)
    # a following section title: a text line followed by an underline of the same length
    for mm in re.finditer(r'(?m)^(\S.*)\n([=\-~]{3,})\n', rest):
        if len(mm.group(1)) == len(mm.group(2)) and not set(mm.group(1)) <= set('=-~ '):
            return rest[:mm.start()]
    return rest

def doc_mul(repo, ptypes, wtypes):
    text = open(os.path.join(repo, 'docs/user/fundamentals/wavefront.rst')).read()
    sec = _rst_section(text, 'Multiplication rules')
    lines = [l.rstrip() for l in sec.split('\n') if l.startswith(('+', '|'))]
    if not lines: raise Refuse('grid table not found')
    head_end = [i for i, l in enumerate(lines) if l.startswith('+=')]
    if len(head_end) != 1: raise Refuse('grid table: header separator')
    cells = lambda l: [c.strip() for c in l.strip().strip('|').split('|')]
    header = [l for l in lines[:head_end[0]] if l.startswith('|')]
    cols = [re.sub(r'`', '', c) for c in cells(header[-1])[1:]]
    if tuple(cols) != tuple(wtypes): raise Refuse(f'grid table: column heads {cols}')
    doc = {}
    for l in lines[head_end[0] + 1:]:
        if not l.startswith('|'): continue
        c = cells(l)
        if len(c) != 1 + len(wtypes): raise Refuse(f'grid table row {l!r}')
        p = c[0].replace('`', '')
        if p not in ptypes or any((w, p) in doc for w in wtypes): raise Refuse(f'grid table row head {c[0]!r}')
        for w, v in zip(wtypes, c[1:]):
            if re.fullmatch(r'not\s+allowed\.?', v.strip('*_` '), flags=re.I): doc[(w, p)] = None
            else:
                v = v.replace('`', '')
                if v not in wtypes: raise Refuse(f'grid table cell {v!r}')
                doc[(w, p)] = v
    if len(doc) != len(ptypes) * len(wtypes): raise Refuse('grid table incomplete')
    return doc

def _simple_table(sec):
    """rows of an RST simple table (=== === borders), split at the border's column starts"""
    lines = sec.split('\n')
    borders = [i for i, l in enumerate(lines) if re.fullmatch(r'=+( +=+)+\s*', l)]
    if len(borders) < 2: raise Refuse('simple table not found')
    b = lines[borders[0]]
    starts = [m.start() for m in re.finditer(r'=+', b)]
    rows = []
    for i in range(borders[0] + 1, borders[-1]):
        if i in borders or not lines[i].strip(): continue
        l = lines[i]
        rows.append([l[s:(starts[k + 1] if k + 1 < len(starts) else None)].strip() for k, s in enumerate(starts)])
    return rows, len(borders)

def doc_classes(repo, ptypes):
    text = open(os.path.join(repo, 'docs/user/fundamentals/planes.rst')).read()
    sec = _rst_section(text, 'ptype')
    rows, nb = _simple_table(sec)
    if nb != 3 or rows[0][0] != 'ptype': raise Refuse('planes.rst ptype table: header')
    out = {}
    for r in rows[1:]:
        m = re.fullmatch(r':class:`(\w+)`', r[0])
        if not m or m.group(1) not in ptypes: raise Refuse(f'planes.rst ptype table: row head {r[0]!r}')
        names = re.findall(r':class:`~lentil\.(\w+)`', r[1])
        if not names or len(names) != r[1].count(':class:'): raise Refuse(f'planes.rst ptype table: row {r!r}')
        for n in names:
            if n in out: raise Refuse(f'planes.rst: {n} listed twice')
            out[n] = m.group(1)
    return out

def doc_propagate(repo, wtypes):
    text = open(os.path.join(repo, 'docs/user/fundamentals/diffraction.rst')).read()
    sec = _rst_section(text, 'Propagate the wavefront to the next plane')
    rows, nb = _simple_table(sec)
    if nb != 3 or not rows[0][0].startswith('Wavefront') or not rows[0][1].startswith('Plane') or rows[0][2] != 'Method':
        raise Refuse('diffraction.rst propagation table: header')
    out = {}
    for r in rows[1:]:
        w, p = r[0].replace('`', ''), r[1].replace('`', '')
        if w not in wtypes: raise Refuse(f'diffraction.rst: wavefront type {w!r}')
        if 'propagate_dft' in r[2] or 'propagate_fft' in r[2]:
            if w in out or p not in wtypes: raise Refuse(f'diffraction.rst: row {r!r}')
            out[w] = p
        elif 'not supported' in r[2]:
            if w in out: raise Refuse(f'diffraction.rst: row {r!r}')
            out[w] = None
    if set(out) != set(wtypes): raise Refuse('diffraction.rst propagation table incomplete')
    return out


# ------------------------------------------------------------------------------------------- emission
def _res(cell):
    if cell[0] == 'ok': return f'.ok .{cell[1]}'
    return f'.refused .{ERR_OF.get(cell[1], "otherError")}'

# ------------------------------------------------------------------------------------------- propagation: guard first
_PMUT = ('append', 'extend', 'insert', 'pop', 'remove', 'clear', 'update', 'sort', 'reverse', 'fill', 'setdefault')

def _operand_effects(stmts, operand, helpers, depth=0):
    """effects on `operand` (a parameter name) performed by `stmts`: attribute / item writes, in-place mutator calls, setattr,
    through the name itself or a local alias `x = operand`; a call handing the operand (or an alias) to a module-level helper
    is followed into that helper (one level of nesting per call, depth-limited); to anything else it is reported as an effect."""
    names = {operand}
    def root(n):
        while isinstance(n, (ast.Attribute, ast.Subscript)): n = n.value
        return n.id if isinstance(n, ast.Name) else None
    out = []
    for st in stmts:
        for n in ast.walk(st):
            tg = []
            if isinstance(n, ast.Assign):
                tg = n.targets
                if isinstance(n.value, ast.Name) and n.value.id in names:
                    for t in n.targets:
                        if isinstance(t, ast.Name): names.add(t.id)
            elif isinstance(n, (ast.AugAssign, ast.AnnAssign)): tg = [n.target]
            elif isinstance(n, ast.Delete): tg = n.targets
            for t in tg:
                for e in (t.elts if isinstance(t, ast.Tuple) else [t]):
                    if isinstance(e, (ast.Attribute, ast.Subscript)) and root(e) in names: out.append(ast.unparse(e))
            if isinstance(n, ast.Call):
                if isinstance(n.func, ast.Attribute) and n.func.attr in _PMUT and root(n.func.value) in names: out.append(ast.unparse(n.func) + '()')
                elif isinstance(n.func, ast.Name) and n.func.id == 'setattr' and n.args and root(n.args[0]) in names: out.append(ast.unparse(n)[:40])
                else:
                    passed = [i for i, a in enumerate(n.args) if isinstance(a, ast.Name) and a.id in names] + [k.arg for k in n.keywords if isinstance(k.value, ast.Name) and k.value.id in names]
                    if passed:
                        h = helpers.get(n.func.id) if isinstance(n.func, ast.Name) else None
                        if h is None or depth >= 3 or any(not isinstance(i, int) for i in passed): out.append('passed to ' + ast.unparse(n.func))
                        else:
                            for i in passed:
                                if i >= len(h.args.args): out.append('passed to ' + ast.unparse(n.func)); continue
                                out += [f'{h.name}: {w}' for w in _operand_effects(h.body, h.args.args[i].arg, helpers, depth + 1)]
    return out

def prop_effects(repo):
    """for propagate_dft / propagate_fft: what is done to the `wavefront` operand BEFORE the `_propagate_ptype` call that can
    refuse the operation (the statement of that call included: its arguments are evaluated first)"""
    prop = _parse(repo, 'lentil/propagate.py')
    fns = _toplevel(prop, ast.FunctionDef)
    res = {}
    for name in ('propagate_dft', 'propagate_fft'):
        f = fns.get(name)
        if f is None: raise Refuse(f'{name} not found')
        if not f.args.args or f.args.args[0].arg != 'wavefront': raise Refuse(f'{name}: first parameter is not `wavefront`')
        body = [st for st in f.body if not (isinstance(st, ast.Expr) and isinstance(st.value, ast.Constant))]
        idx = [i for i, st in enumerate(body) if isinstance(st, ast.Assign) and isinstance(st.value, ast.Call) and ast.unparse(st.value.func) == '_propagate_ptype']
        if len(idx) != 1: raise Refuse(f'{name}: one top-level `… = _propagate_ptype(…)` statement expected')
        if ast.unparse(body[idx[0]].value.args[0]) != 'wavefront.ptype': raise Refuse(f'{name}: _propagate_ptype is not given wavefront.ptype')
        res[name] = _operand_effects(body[:idx[0] + 1], 'wavefront', fns)
    return res

def generate(repo):
    ptypes, wtypes, cells, pcells, fftcells = code_tables(repo)
    classes = class_table(repo, ptypes)
    dmul = doc_mul(repo, ptypes, wtypes)
    dcls = doc_classes(repo, ptypes)
    dprop = doc_propagate(repo, wtypes)
    for n in dcls:
        if n not in [c for c, _, _, _ in classes]: raise Refuse(f'documented class {n} is not a public plane class')
    L = []
    A = L.append
    A('/-- `lentil/ptype.py:PTYPES` -/')
    A('inductive PType where\n' + '\n'.join(f'  | {p}' for p in ptypes) + '\nderiving DecidableEq, Repr\n')
    A('/-- the types accepted by the `Wavefront.ptype` setter (`lentil/wavefront.py`) -/')
    A('inductive WType where\n' + '\n'.join(f'  | {p}' for p in wtypes) + '\nderiving DecidableEq, Repr\n')
    A('inductive Err where\n' + '\n'.join(f'  | {e}' for e in ERRS) + '\nderiving DecidableEq, Repr\n')
    A('inductive Res where\n  | ok (w : WType)\n  | refused (e : Err)\nderiving DecidableEq, Repr\n')
    A('/-- the plane classes exported by `lentil/__init__.py` -/')
    A('inductive PlaneClass where\n' + '\n'.join(f'  | {c}' for c, _, _, _ in classes) + '\nderiving DecidableEq, Repr\n')
    A('def PType.all : List PType := [' + ', '.join('.' + p for p in ptypes) + ']')
    A('def WType.all : List WType := [' + ', '.join('.' + p for p in wtypes) + ']')
    A('def PlaneClass.all : List PlaneClass := [' + ', '.join('.' + c for c, _, _, _ in classes) + ']')
    for ty, names in (('PType', ptypes), ('WType', wtypes), ('PlaneClass', [c for c, _, _, _ in classes])):
        A(f'def {ty}.name : {ty} → String\n' + '\n'.join(f'  | .{n} => "{n}"' for n in names))
        A(f'def {ty}.ofName? : String → Option {ty}\n' + '\n'.join(f'  | "{n}" => some .{n}' for n in names) + '\n  | _ => none')
    A('def Err.name : Err → String\n' + '\n'.join(f'  | .{e} => "{e[0].upper() + e[1:]}"' for e in ERRS))
    A('')
    A('/-- `Plane.multiply`: guard `_can_mul_ptype`, then `_mul_result_ptype`, evaluated on `_mul_ptype_table` (`lentil/plane.py`) -/')
    A('def codeMul : WType → PType → Res\n' + '\n'.join(f'  | .{w}, .{p} => {_res(cells[(w, p)])}' for w in wtypes for p in ptypes))
    A('\n/-- `_propagate_ptype(·, method=\'fraunhofer\')` (`lentil/propagate.py`), used by propagate_dft and propagate_fft -/')
    A('def codePropagate : WType → Res\n' + '\n'.join(f'  | .{w} => {_res(pcells[w])}' for w in wtypes))
    A('\n/-- grid table "Multiplication rules" of docs/user/fundamentals/wavefront.rst ("Not allowed" = TypeError) -/')
    A('def docMul : WType → PType → Res\n' + '\n'.join(
        f'  | .{w}, .{p} => ' + (f'.ok .{dmul[(w, p)]}' if dmul[(w, p)] else '.refused .typeError') for w in wtypes for p in ptypes))
    A('\n/-- table "Propagate the wavefront to the next plane" of docs/user/fundamentals/diffraction.rst -/')
    A('def docPropagate : WType → Res\n' + '\n'.join(
        f'  | .{w} => ' + (f'.ok .{dprop[w]}' if dprop[w] else '.refused .typeError') for w in wtypes))
    A('\n/-- ptype of `C(...)` constructed without a ptype argument (constructors of `lentil/plane.py`) -/')
    A('def classPtype : PlaneClass → PType\n' + '\n'.join(f'  | .{c} => .{p}' for c, p, _, _ in classes))
    A('\n/-- a `multiply` override of the form `wavefront = super().multiply(wavefront); wavefront.ptype = X; …` -/')
    A('def classForce : PlaneClass → Option WType\n' + '\n'.join(
        f'  | .{c} => ' + (f'some .{k[1]}' if k[0] == 'table' and k[1] else 'none') for c, _, k, _ in classes))
    A('\n/-- the class replaces `Plane.multiply` by a body that does not go through the ptype table -/')
    A('def classCustomMul : PlaneClass → Bool\n' + '\n'.join(f'  | .{c} => {"true" if k[0] == "custom" else "false"}' for c, _, k, _ in classes))
    A('\n/-- a custom `multiply` hands back its argument, a copy of it, or a Wavefront built with the argument\'s plane type: the type is kept, the ptype table is not consulted -/')
    A('def classCustomKeepsType : PlaneClass → Bool\n' + '\n'.join(f'  | .{c} => {"true" if (k[0] == "custom" and k[2]) else "false"}' for c, _, k, _ in classes))
    A('\n/-- names referenced by a custom `multiply` that exist nowhere in lentil (=> AttributeError/TypeError when called) -/')
    A('def classMissing : PlaneClass → List String\n' + '\n'.join(
        f'  | .{c} => [' + ', '.join(f'"{m}"' for m in (k[1] if k[0] == 'custom' else [])) + ']' for c, _, k, _ in classes))
    A('\n/-- attribute writes on `self` / the wavefront argument that the class\'s `multiply` performs before delegating to\n`super().multiply` (i.e. before the ptype check can refuse) -/')
    A('def classWritesBeforeSuper : PlaneClass → List String\n' + '\n'.join(
        f'  | .{c} => [' + ', '.join('"' + w.replace('"', "'") + '"' for w in wr) + ']' for c, _, _, wr in classes))
    A('\n/-- `propagate_fft`: the order of its two refusals (`_has_tilt` -> NotImplementedError, `_propagate_ptype` -> TypeError) as in the source; first argument: the wavefront carries fitted tilt -/')
    A('def codePropagateFft : Bool → WType → Res\n' + '\n'.join(f'  | {str(t).lower()}, .{w} => {_res(fftcells[(t, w)])}' for t in (False, True) for w in wtypes))
    A('\n/-- ptype of `C(…, ptype=p)` for a caller-supplied plane type `p` (a PType object handed in as keyword); `none`: the constructor call is a TypeError (no such parameter, or the keyword would reach `Plane.__init__` twice) -/')
    A('def classPtypeWith : PlaneClass → PType → Option PType\n' + '\n'.join(
        f'  | .{c}, .{p} => ' + ('none' if PTYPE_WITH[(c, p)] is None else f'some .{PTYPE_WITH[(c, p)]}') for c, _, _, _ in classes for p in ptypes))
    pe = prop_effects(repo)
    A('\n/-- `propagate_dft` / `propagate_fft`: effects on the `wavefront` operand (attribute or item writes, in-place mutators, also through a local alias or inside a module-level helper the wavefront is handed to) up to and including the `_propagate_ptype` call that can refuse the operation -/')
    A('def propDftEffectsBeforeTypeCheck : List String := [' + ', '.join('"' + w.replace('"', "'") + '"' for w in pe['propagate_dft']) + ']')
    A('def propFftEffectsBeforeTypeCheck : List String := [' + ', '.join('"' + w.replace('"', "'") + '"' for w in pe['propagate_fft']) + ']')
    A('\n/-- table "ptype" of docs/user/fundamentals/planes.rst -/')
    A('def docClassPtype : PlaneClass → Option PType\n' + '\n'.join(
        f'  | .{c} => ' + (f'some .{dcls[c]}' if c in dcls else 'none') for c, _, _, _ in classes))
    notes = {'cells': len(cells), 'classes': {c: [p, list(k), wr] for c, p, k, wr in classes}, 'documented_classes': dcls}
    return '\n'.join(L) + '\n', notes

MODULES = [{'name': 'PlaneType', 'src': 'lentil/plane.py', 'generator': generate, 'props': ['C08', 'C07']}]
