"""Translator spec for C05: `lentil.util.normalize_power` -> lean/LentilVerif/Gen/NormalizePower.lean.

The body must be `array = np.asarray(array)` followed by `return array * <factor>` (or `<factor> * array`) where `<factor>` is a real
expression over `power` and the total `np.sum(np.abs(array) ** 2)` built from `* / + -`, `np.sqrt`; anything else (an early
return, a tolerance test, another reduction) is refused. Emitted: `npFactor sqrt power total : R` — the factor as written in the
source, as a function of the target power and the total `Σ|array|²`. Model/Energy.lean defines `normalizePower` with it, so
e.g. `np.sqrt(power) / total` changes the model and `C05.normalize_power_power` stops checking."""
import ast, os
from py2lean import Refuse

SRC = 'lentil/util.py'
# the total power Σ|array|², squared in floating point (fix 8e13caf); the older spelling is accepted too
TOTALS = ('np.sum(np.square(np.abs(array), dtype=float))', 'np.sum(np.abs(array) ** 2)')

def _u(n): return ast.unparse(n)

def _factor(e):
    if _u(e) in TOTALS: return 'total'
    if isinstance(e, ast.Name) and e.id == 'power': return 'power'
    if isinstance(e, ast.Constant) and isinstance(e.value, (int, float)) and not isinstance(e.value, bool) and float(e.value) == int(e.value):
        return f'(ofInt {int(e.value)})'
    if isinstance(e, ast.BinOp) and isinstance(e.op, (ast.Mult, ast.Div, ast.Add, ast.Sub)):
        op = {ast.Mult: '*', ast.Div: '/', ast.Add: '+', ast.Sub: '-'}[type(e.op)]
        return f'({_factor(e.left)} {op} {_factor(e.right)})'
    if isinstance(e, ast.Call) and _u(e.func) == 'np.sqrt' and len(e.args) == 1 and not e.keywords: return f'(sqrt {_factor(e.args[0])})'
    raise Refuse(f'normalize_power: unsupported factor expression {_u(e)[:70]}')

def generate(repo):
    mod = ast.parse(open(os.path.join(repo, SRC)).read())
    fn = [n for n in mod.body if isinstance(n, ast.FunctionDef) and n.name == 'normalize_power']
    if not fn: raise Refuse('util.py: normalize_power not found')
    fn = fn[0]
    params = [a.arg for a in fn.args.args]
    dfl = [_u(d) for d in fn.args.defaults]
    # the default target power is EMITTED (npDefaultPower, wave 12) — it must be an integer literal; C05.normalize_power_default_power is about it
    if params != ['array', 'power'] or len(dfl) != 1 or not dfl[0].lstrip('-').isdigit(): raise Refuse(f'normalize_power: signature changed: {params} {dfl}')
    body = [s for s in fn.body if not (isinstance(s, ast.Expr) and isinstance(s.value, ast.Constant))]
    if len(body) != 2 or _u(body[0]) != 'array = np.asarray(array)' or not isinstance(body[1], ast.Return):
        raise Refuse('normalize_power: expected `array = np.asarray(array)` and one return: ' + ' | '.join(_u(s)[:40] for s in body))
    e = body[1].value
    if not (isinstance(e, ast.BinOp) and isinstance(e.op, ast.Mult)): raise Refuse(f'normalize_power: return is not a product: {_u(e)[:60]}')
    if _u(e.left) == 'array': f = e.right
    elif _u(e.right) == 'array': f = e.left
    else: raise Refuse(f'normalize_power: the array is not a factor of the result: {_u(e)[:60]}')
    text = (f'/-- `util.py:normalize_power` (line {fn.lineno}): the result is `array * npFactor`, with `total = np.sum(np.abs(array)**2)` -/\n'
            f'def npFactor {{R : Type}} [Add R] [Sub R] [Mul R] [Div R] (sqrt : R → R) (ofInt : Int → R) (power total : R) : R :=\n  {_factor(f)}\n'
            f'/-- the default of `power` (a call `normalize_power(array)`) -/\ndef npDefaultPower : Int := {dfl[0]}\n')
    return text, ['normalize_power: default power emitted (npDefaultPower); np.asarray not modelled']

MODULES = [{'name': 'NormalizePower', 'src': SRC, 'generator': generate, 'props': ['C05'], 'imports': []}]
