"""Translator spec for C09: the scratch-buffer index regions of `lentil.propagate.propagate_fft`
-> lean/LentilVerif/Gen/FftScratch.lean.

In the `if scratch is not None:` branch the code addresses the buffer four times with constant slices of `fft_shape`:
  scratch[a:b, c:d] = 0                                  (zeroed region)            -> `scratchZero`
  scratch[a:b, c:d] = insert(field, scratch[a:b, c:d])   (insert target, insert view) -> `scratchInsertTarget`, `scratchInsertView`
  field = _fft2(scratch[a:b, c:d])                        (transformed view)          -> `scratchFftView`
Each becomes `def … (S0 S1 : Int) : (Int × Int) × (Int × Int)` = ((row start, row stop), (col start, col stop)); the slice
bounds are translated by py2lean's expression translator with `fft_shape = (S0, S1)`. Anything else in that branch
(other statements, other buffers, steps, open slices) is refused."""
import ast, os
from py2lean import FnTranslator, Refuse, V, S, lean_val

def _region(tr, sub, env):
    """scratch[lo0:hi0, lo1:hi1] -> V([[lo0,hi0],[lo1,hi1]])"""
    if not (isinstance(sub, ast.Subscript) and isinstance(sub.value, ast.Name) and sub.value.id == 'scratch'):
        raise Refuse(f'propagate_fft: expected a slice of scratch, got {ast.unparse(sub)[:60]}')
    sl = sub.slice
    if not (isinstance(sl, ast.Tuple) and len(sl.elts) == 2 and all(isinstance(e, ast.Slice) for e in sl.elts)):
        raise Refuse(f'propagate_fft: scratch must be addressed with two slices: {ast.unparse(sub)[:60]}')
    out = []
    for e in sl.elts:
        if e.lower is None or e.upper is None or e.step is not None: raise Refuse('propagate_fft: open or stepped scratch slice')
        lo, hi = tr.expr(e.lower, env), tr.expr(e.upper, env)
        if not (isinstance(lo, S) and isinstance(hi, S)): raise Refuse('propagate_fft: scratch slice bound is not an integer expression')
        out.append(V([lo, hi]))
    return V(out)

def generate(repo):
    path = os.path.join(repo, 'lentil/propagate.py')
    mod = ast.parse(open(path).read())
    fn = [n for n in ast.walk(mod) if isinstance(n, ast.FunctionDef) and n.name == 'propagate_fft']
    if not fn: raise Refuse('propagate.py: propagate_fft not found')
    br = [n for n in fn[0].body if isinstance(n, ast.If) and ast.unparse(n.test) == 'scratch is not None']
    if len(br) != 1: raise Refuse('propagate_fft: `if scratch is not None:` not found')
    body = [s for s in br[0].body if not (isinstance(s, ast.Expr) and isinstance(s.value, ast.Constant))]
    if len(body) != 4: raise Refuse(f'propagate_fft: scratch branch has {len(body)} statements, expected guard, zeroing, insert loop, _fft2')
    guard, zero, loop, fft = body
    if not (isinstance(guard, ast.If) and 'scratch.shape' in ast.unparse(guard.test) and '>= fft_shape' in ast.unparse(guard.test)
            and ast.unparse(guard.test).startswith('not all(') and isinstance(guard.body[0], ast.Raise) and not guard.orelse):
        raise Refuse('propagate_fft: scratch size guard changed: ' + ast.unparse(guard.test)[:80])
    tr = FnTranslator(None, fn[0], {'params': []}, {}, {})
    env = {'fft_shape': V([S('S0'), S('S1')])}
    if not (isinstance(zero, ast.Assign) and len(zero.targets) == 1 and isinstance(zero.value, ast.Constant) and zero.value.value == 0):
        raise Refuse('propagate_fft: zeroing statement changed: ' + ast.unparse(zero)[:80])
    r_zero = _region(tr, zero.targets[0], env)
    if not (isinstance(loop, ast.For) and ast.unparse(loop.target) == 'field' and ast.unparse(loop.iter) == 'wavefront.data'
            and len(loop.body) == 1 and isinstance(loop.body[0], ast.Assign) and not loop.orelse):
        raise Refuse('propagate_fft: insert loop changed')
    ins = loop.body[0]
    call = ins.value
    if not (isinstance(call, ast.Call) and ast.unparse(call.func) == 'lentil.field.insert' and len(call.args) == 2
            and not call.keywords and ast.unparse(call.args[0]) == 'field'):
        raise Refuse('propagate_fft: insert call changed: ' + ast.unparse(ins)[:80])
    r_tgt = _region(tr, ins.targets[0], env)
    r_view = _region(tr, call.args[1], env)
    if not (isinstance(fft, ast.Assign) and isinstance(fft.value, ast.Call) and ast.unparse(fft.value.func) == '_fft2'
            and len(fft.value.args) == 1 and ast.unparse(fft.targets[0]) == 'field'):
        raise Refuse('propagate_fft: _fft2 call on the scratch view changed: ' + ast.unparse(fft)[:80])
    r_fft = _region(tr, fft.value.args[0], env)
    ty = '((Int × Int) × (Int × Int))'
    defs = []
    for name, r, what in (('scratchZero', r_zero, 'region set to zero'), ('scratchInsertTarget', r_tgt, 'region the insert result is written to'),
                          ('scratchInsertView', r_view, 'view the fields are inserted into'), ('scratchFftView', r_fft, 'view handed to _fft2')):
        defs.append(f'/-- translated from `propagate.py:propagate_fft` (scratch branch, line {br[0].lineno}): {what} -/\n'
                    f'def {name} (S0 S1 : Int) : {ty} :=\n  {lean_val(r)}\n')
    return '\n'.join(defs), ['propagate_fft: fft_shape = (S0, S1); only the scratch branch is translated']

RC = '{R : Type} [Add R] [Sub R] [Mul R] [Div R]'

def _rx(e, env):
    """float/int expression over names, constant subscripts of pairs, attributes, + - * /, pairs (element-wise with scalars)"""
    if isinstance(e, ast.Name):
        if e.id not in env: raise Refuse(f'unknown name {e.id}')
        return env[e.id]
    if isinstance(e, ast.Attribute):
        k = ast.unparse(e)
        if k not in env: raise Refuse(f'unknown attribute {k}')
        return env[k]
    if isinstance(e, ast.Subscript):
        b = _rx(e.value, env)
        if not (isinstance(b, list) and isinstance(e.slice, ast.Constant) and e.slice.value in (0, 1)): raise Refuse('subscript ' + ast.unparse(e))
        return b[e.slice.value]
    if isinstance(e, ast.Tuple):
        if len(e.elts) != 2: raise Refuse('only pairs')
        return [_rx(x, env) for x in e.elts]
    if isinstance(e, ast.BinOp):
        ops = {ast.Add: '+', ast.Sub: '-', ast.Mult: '*', ast.Div: '/'}
        if type(e.op) not in ops: raise Refuse('operator ' + type(e.op).__name__ + ' in ' + ast.unparse(e)[:40])
        a, b, o = _rx(e.left, env), _rx(e.right, env), ops[type(e.op)]
        if isinstance(a, list) or isinstance(b, list):
            a2 = a if isinstance(a, list) else [a, a]; b2 = b if isinstance(b, list) else [b, b]
            return [f'({x} {o} {y})' for x, y in zip(a2, b2)]
        return f'({a} {o} {b})'
    if isinstance(e, ast.Call):
        f = ast.unparse(e.func)
        if f in ('tuple', 'np.asarray') and len(e.args) == 1 and not e.keywords: return _rx(e.args[0], env)
        if f == 'np.broadcast_to' and len(e.args) == 2 and ast.unparse(e.args[1]) == '(2,)':
            v = _rx(e.args[0], env); return v if isinstance(v, list) else [v, v]
        if f == 'np.max' and len(e.args) == 1 and ast.unparse(e.args[0]) + '#max' in env: return env[ast.unparse(e.args[0]) + '#max']
    raise Refuse('expression ' + ast.unparse(e)[:60])

def _bx(e, env, cmpf):
    """Boolean expression: comparisons of scalars/pairs (element-wise), all/any/np.all/np.any over a pair, not.
    `cmpf(op, a, b)` renders one scalar comparison."""
    if isinstance(e, ast.UnaryOp) and isinstance(e.op, ast.Not):
        v = _bx(e.operand, env, cmpf)
        if isinstance(v, list): raise Refuse('not of a vector')
        return f'(!{v})'
    if isinstance(e, ast.Compare) and len(e.ops) == 1:
        ops = {ast.Gt: '>', ast.GtE: '≥', ast.Lt: '<', ast.LtE: '≤'}
        if type(e.ops[0]) not in ops: raise Refuse('comparison ' + ast.unparse(e))
        a, b = _rx(e.left, env), _rx(e.comparators[0], env)
        if isinstance(a, list) or isinstance(b, list):
            a2 = a if isinstance(a, list) else [a, a]; b2 = b if isinstance(b, list) else [b, b]
            return [cmpf(ops[type(e.ops[0])], x, y) for x, y in zip(a2, b2)]
        return cmpf(ops[type(e.ops[0])], a, b)
    if isinstance(e, ast.Call) and ast.unparse(e.func) in ('all', 'any', 'np.all', 'np.any') and len(e.args) == 1:
        v = _bx(e.args[0], env, cmpf)
        if not isinstance(v, list): return v
        return '(' + (' && ' if ast.unparse(e.func).endswith('all') else ' || ').join(v) + ')'
    raise Refuse('condition ' + ast.unparse(e)[:60])

def _pair(v):
    if not isinstance(v, list): raise Refuse('expected a pair')
    return f'({v[0]}, {v[1]})'

def _call_args(call, callee):
    params = [a.arg for a in callee.args.args]
    got = {}
    for i, a in enumerate(call.args): got[params[i]] = a
    for k in call.keywords:
        if k.arg in got or k.arg not in params: raise Refuse('call arguments of ' + ast.unparse(call)[:60])
        got[k.arg] = k.value
    if set(got) != set(params): raise Refuse('call arity of ' + ast.unparse(call)[:60])
    return [got[p] for p in params]

def _flat(args):
    out = []
    for a in args: out += a if isinstance(a, list) else [a]
    return ' '.join(out)

def _wiring(mod):
    """call-site wiring, guards, output shape and metadata of propagate_fft, and scratch_shape"""
    fns = {n.name: n for n in ast.walk(mod) if isinstance(n, ast.FunctionDef)}
    fp, ff, fss = fns['propagate_fft'], fns['_fft_shape'], fns['scratch_shape']
    out = []
    WP = 'wavefront_pixelscale_0 wavefront_pixelscale_1 pixelscale_0 pixelscale_1 wavefront_focal_length wavefront_wavelength oversample'
    env = {'wavefront.pixelscale': ['wavefront_pixelscale_0', 'wavefront_pixelscale_1'], 'pixelscale': ['pixelscale_0', 'pixelscale_1'],
           'wavefront.focal_length': 'wavefront_focal_length', 'wavefront.wavelength': 'wavefront_wavelength', 'oversample': 'oversample'}
    rebind = [n for n in fp.body if isinstance(n, ast.Assign) and ast.unparse(n.targets[0]) == 'pixelscale']
    if len(rebind) != 1 or ast.unparse(rebind[0].value) != 'np.broadcast_to(pixelscale, (2,))': raise Refuse('propagate_fft: pixelscale is no longer broadcast to a pair')
    # ---- _fft_shape call site
    call = [n for n in ast.walk(fp) if isinstance(n, ast.Call) and ast.unparse(n.func) == '_fft_shape']
    if len(call) != 1: raise Refuse('propagate_fft: expected one _fft_shape call')
    holder = [n for n in fp.body if isinstance(n, ast.Assign) and n.value is call[0]]
    if len(holder) != 1 or ast.unparse(holder[0].targets[0]) not in ('(fft_shape, prop_wavelength)', 'fft_shape, prop_wavelength'):
        raise Refuse('propagate_fft: result of _fft_shape is no longer bound to (fft_shape, prop_wavelength)')
    args = [_rx(x, env) for x in _call_args(call[0], ff)]            # in the order (dx, du, z, wavelength, oversample) of _fft_shape
    out.append(f'/-- translated from `propagate.py:propagate_fft` (line {call[0].lineno}): the `alpha` of `_fft_shape` in terms of the wavefront\n'
               f'attributes and call arguments (`fft_shape = round(1/alpha)`) -/\n'
               f'def fftShapeAlpha {RC} ({WP} : R) : R × R :=\n  fftAlphaCall {_flat(args)}\n')
    out.append(f'/-- translated from `propagate.py:propagate_fft` (line {call[0].lineno}): the per-axis wavelengths whose minimum is reported -/\n'
               f'def fftReportedWavelengths {RC} (fft_shape_0 fft_shape_1 {WP} : R) : R × R :=\n'
               f'  fftWavelengths fft_shape_0 fft_shape_1 {_flat([args[0], args[1], args[2], args[4]])}\n')
    # ---- shape branches
    br = [n for n in fp.body if isinstance(n, ast.If) and ast.unparse(n.test) == 'shape is None']
    if len(br) != 1: raise Refuse('propagate_fft: `if shape is None:` not found')
    ienv = {'fft_shape': ['fft_shape_0', 'fft_shape_1'], 'oversample': 'oversample', 'shape': ['shape_0', 'shape_1']}
    so_none = [n for n in br[0].body if isinstance(n, ast.Assign) and ast.unparse(n.targets[0]) == 'shape_out']
    if len(so_none) != 1: raise Refuse('propagate_fft: shape_out (shape is None) not found')
    out.append(f'/-- translated from `propagate.py:propagate_fft` (line {so_none[0].lineno}): `shape_out` when `shape is None` -/\n'
               f'def fftShapeOutNone (fft_shape_0 fft_shape_1 oversample : Int) : Int × Int :=\n  {_pair(_rx(so_none[0].value, ienv))}\n')
    els = br[0].orelse
    if len(els) != 2 or ast.unparse(els[0]) != 'shape = tuple(np.broadcast_to(shape, (2,)))' or not isinstance(els[1], ast.If):
        raise Refuse('propagate_fft: explicit-shape branch changed')
    g = els[1]
    if not (isinstance(g.body[0], ast.Raise) and 'ValueError' in ast.unparse(g.body[0]) and len(g.orelse) == 1): raise Refuse('propagate_fft: shape guard changed')
    cmpR = lambda op, a, b: {'>': f'(gt {a} {b})', '<': f'(gt {b} {a})', '≥': f'(!(gt {b} {a}))', '≤': f'(!(gt {a} {b}))'}[op]
    out.append(f'/-- translated from `propagate.py:propagate_fft` (line {g.lineno}): the guard that refuses an explicit shape (true = ValueError);\n'
               f'`gt a b` is the comparison `a > b` of the scalars (floats in the code) -/\n'
               f'def fftShapeTooBig {RC} (gt : R → R → Bool) (shape_0 shape_1 fft_shape_0 fft_shape_1 oversample : R) : Bool :=\n'
               f'  {_bx(g.test, ienv, cmpR)}\n')
    so_some = g.orelse[0]
    if not (isinstance(so_some, ast.Assign) and ast.unparse(so_some.targets[0]) == 'shape_out'): raise Refuse('propagate_fft: shape_out (explicit shape) not found')
    out.append(f'/-- translated from `propagate.py:propagate_fft` (line {so_some.lineno}): `shape_out` for an explicit shape -/\n'
               f'def fftShapeOutSome (shape_0 shape_1 oversample : Int) : Int × Int :=\n  {_pair(_rx(so_some.value, ienv))}\n')
    # ---- scratch size guard
    sb = [n for n in fp.body if isinstance(n, ast.If) and ast.unparse(n.test) == 'scratch is not None'][0]
    sg = sb.body[0]
    if not (isinstance(sg, ast.If) and isinstance(sg.body[0], ast.Raise) and 'ValueError' in ast.unparse(sg.body[0]) and not sg.orelse):
        raise Refuse('propagate_fft: scratch size guard changed')
    cmpI = lambda op, a, b: f'(decide ({a} {op} {b}))'
    senv = {'scratch.shape': ['scratch_shape_0', 'scratch_shape_1'], 'fft_shape': ['fft_shape_0', 'fft_shape_1']}
    out.append(f'/-- translated from `propagate.py:propagate_fft` (line {sg.lineno}): the guard that refuses a scratch buffer (true = ValueError) -/\n'
               f'def fftScratchTooSmall (scratch_shape_0 scratch_shape_1 fft_shape_0 fft_shape_1 : Int) : Bool :=\n  {_bx(sg.test, senv, cmpI)}\n')
    # ---- the no-scratch path and the output field
    ns = [ast.unparse(x) for x in sb.orelse]
    if ns != ['field = lentil.pad(wavefront.field, fft_shape)', 'field = _fft2(field)']: raise Refuse('propagate_fft: no-scratch path changed: ' + ' | '.join(ns))
    # ---- metadata of the output
    emp = [n for n in fp.body if isinstance(n, ast.Assign) and ast.unparse(n.targets[0]) == 'out'][0].value
    kw = {k.arg: k.value for k in emp.keywords}
    if not (ast.unparse(emp.func) == 'Wavefront.empty' and set(kw) == {'wavelength', 'pixelscale', 'focal_length', 'shape', 'ptype'}
            and ast.unparse(kw['shape']) == 'shape_out' and ast.unparse(kw['ptype']) == 'ptype_out'):
        raise Refuse('propagate_fft: Wavefront.empty(...) of the output changed')
    menv = dict(env); menv['prop_wavelength'] = 'prop_wavelength'
    out.append(f'/-- translated from `propagate.py:propagate_fft` (line {emp.lineno}): (wavelength, pixelscale, focal_length) of the output wavefront -/\n'
               f'def fftOutMeta {RC} (prop_wavelength {WP} : R) : R × (R × R) × R :=\n'
               f'  ({_rx(kw["wavelength"], menv)}, {_pair(_rx(kw["pixelscale"], menv))}, {_rx(kw["focal_length"], menv)})\n')
    fld = [n for n in ast.walk(fp) if isinstance(n, ast.Call) and ast.unparse(n.func) == 'Field']
    if len(fld) != 1: raise Refuse('propagate_fft: expected one Field(...) construction')
    fkw = {k.arg: k.value for k in fld[0].keywords}
    if set(fkw) != {'data', 'pixelscale'} or ast.unparse(fkw['data']) != 'field': raise Refuse('propagate_fft: output Field(...) changed (offset must stay the default)')
    out.append(f'/-- translated from `propagate.py:propagate_fft` (line {fld[0].lineno}): pixelscale attribute of the output Field -/\n'
               f'def fftFieldPixelscale {RC} ({WP} : R) : R × R :=\n  {_pair(_rx(fkw["pixelscale"], menv))}\n')
    # ---- scratch_shape(wavelength, dx, du, z, oversample)
    if [a.arg for a in fss.args.args] != ['wavelength', 'dx', 'du', 'z', 'oversample']: raise Refuse('scratch_shape: parameters changed')
    body = [x for x in fss.body if not (isinstance(x, ast.Expr) and isinstance(x.value, ast.Constant))]
    if len(body) != 4 or ast.unparse(body[3]) != 'return tuple(fft_shape)': raise Refuse('scratch_shape: body changed')
    eenv = {'dx': 'dx', 'du': 'du', 'z': 'z', 'oversample': 'oversample', 'wavelength#max': 'max_wavelength'}
    for st in body[:2]:
        nm = ast.unparse(st.targets[0])
        if nm not in ('dx', 'du'): raise Refuse('scratch_shape: unexpected assignment ' + nm)
        eenv[nm] = _rx(st.value, {nm: [f'{nm}_0', f'{nm}_1']})
    c3 = body[2].value
    if not (isinstance(c3, ast.Call) and ast.unparse(c3.func) == '_fft_shape' and ast.unparse(body[2].targets[0]) in ('(fft_shape, _)', 'fft_shape, _')):
        raise Refuse('scratch_shape: no longer returns the grid of _fft_shape')
    sargs = [_rx(x, eenv) for x in _call_args(c3, ff)]
    out.append(f'/-- translated from `propagate.py:scratch_shape` (line {fss.lineno}): the `alpha` whose rounded reciprocal is advertised;\n'
               f'`max_wavelength` = `np.max(wavelength)` (scalar or list) -/\n'
               f'def scratchShapeAlpha {RC} (dx_0 dx_1 du_0 du_1 z max_wavelength oversample : R) : R × R :=\n  fftAlphaCall {_flat(sargs)}\n')
    return out

def _has_tilt(mod):
    """`_has_tilt(wavefront)`: translated as a fold over the per-field tilt counts (`len(field.tilt)` of `wavefront.data[...]`):
    the iterable (whole list or a constant slice of it), the truthiness test and the two return values are taken from the source"""
    fn = [n for n in ast.walk(mod) if isinstance(n, ast.FunctionDef) and n.name == '_has_tilt']
    if not fn: raise Refuse('propagate.py: _has_tilt not found')
    body = [s for s in fn[0].body if not (isinstance(s, ast.Expr) and isinstance(s.value, ast.Constant))]
    if not (len(body) == 2 and isinstance(body[0], ast.For) and isinstance(body[0].target, ast.Name) and not body[0].orelse
            and isinstance(body[1], ast.Return) and isinstance(body[1].value, ast.Constant) and isinstance(body[1].value.value, bool)):
        raise Refuse('_has_tilt: not a `for … : …` followed by `return <bool>`')
    var = body[0].target.id
    it = body[0].iter
    lst = 'ntilt'
    if isinstance(it, ast.Subscript) and ast.unparse(it.value) == 'wavefront.data' and isinstance(it.slice, ast.Slice) and it.slice.step is None:
        lo = it.slice.lower.value if isinstance(it.slice.lower, ast.Constant) else (0 if it.slice.lower is None else None)
        hi = it.slice.upper.value if isinstance(it.slice.upper, ast.Constant) else ('end' if it.slice.upper is None else None)
        if lo is None or hi is None or lo < 0 or (hi != 'end' and hi < lo): raise Refuse('_has_tilt: slice of wavefront.data not constant')
        lst = f'(ntilt.drop {lo})' if hi == 'end' else f'((ntilt.drop {lo}).take {hi - lo})'
    elif ast.unparse(it) != 'wavefront.data': raise Refuse('_has_tilt: iterates over ' + ast.unparse(it))
    if len(body[0].body) != 1 or not isinstance(body[0].body[0], ast.If) or body[0].body[0].orelse: raise Refuse('_has_tilt: loop body is not a single `if`')
    cond = body[0].body[0]
    t = cond.test
    neg = False
    if isinstance(t, ast.UnaryOp) and isinstance(t.op, ast.Not): neg = True; t = t.operand
    if ast.unparse(t) != f'{var}.tilt': raise Refuse('_has_tilt: the test is not the truthiness of field.tilt')
    test = '(decide (n = (0 : Int)))' if neg else '(decide (n ≠ (0 : Int)))'
    if len(cond.body) != 1 or not isinstance(cond.body[0], ast.Return) or not isinstance(cond.body[0].value, ast.Constant) or not isinstance(cond.body[0].value.value, bool):
        raise Refuse('_has_tilt: the `if` does not return a Boolean constant')
    hit = 'true' if cond.body[0].value.value else 'false'
    dflt = 'true' if body[1].value.value else 'false'
    return (f'/-- translated from `propagate.py:_has_tilt` (line {fn[0].lineno}); `ntilt` = `len(field.tilt)` per field of `wavefront.data`, in order -/\n'
            f'def hasTilt (ntilt : List Int) : Bool :=\n  {lst}.foldr (fun n rest => if {test} then {hit} else rest) {dflt}\n')


def _fft2_composition(mod):
    """`_fft2(x)`: a composition `shift_out(np.fft.fft2(shift_in(x), norm=…))` read from the source: which of fftshift / ifftshift is
    applied before and after the transform becomes an index map, the `norm` keyword a normalisation code"""
    fn = [n for n in ast.walk(mod) if isinstance(n, ast.FunctionDef) and n.name == '_fft2']
    if not fn: raise Refuse('propagate.py: _fft2 not found')
    if [a.arg for a in fn[0].args.args] != ['x']: raise Refuse('_fft2: parameters changed')
    body = [x for x in fn[0].body if not (isinstance(x, ast.Expr) and isinstance(x.value, ast.Constant))]
    if len(body) != 1 or not isinstance(body[0], ast.Return): raise Refuse('_fft2: body is not a single return')
    IDX = {'np.fft.fftshift': '((i - (n / (2 : Int))) % n)',      # fftshift(x)[i] = x[(i - n//2) mod n]
           'np.fft.ifftshift': '((i + (n / (2 : Int))) % n)'}     # ifftshift(x)[i] = x[(i + n//2) mod n]
    def shift_call(e, what):
        if not (isinstance(e, ast.Call) and ast.unparse(e.func) in IDX and len(e.args) == 1 and not e.keywords):
            raise Refuse(f'_fft2: {what} is not a plain np.fft.fftshift / np.fft.ifftshift call: ' + ast.unparse(e)[:60])
        return ast.unparse(e.func), e.args[0]
    outer, inner_expr = shift_call(body[0].value, 'the outer step')
    if not (isinstance(inner_expr, ast.Call) and ast.unparse(inner_expr.func) == 'np.fft.fft2' and len(inner_expr.args) == 1):
        raise Refuse('_fft2: the middle step is not np.fft.fft2(…)')
    kw = {k.arg: k.value for k in inner_expr.keywords}
    if set(kw) - {'norm'}: raise Refuse('_fft2: unexpected fft2 keywords ' + str(sorted(kw)))
    norm = kw['norm'].value if 'norm' in kw and isinstance(kw['norm'], ast.Constant) else ('backward' if 'norm' not in kw else None)
    if norm is None: norm = 'backward'
    code = {'backward': 0, 'ortho': 1, 'forward': 2}.get(norm)
    if code is None: raise Refuse(f'_fft2: norm={norm!r}')
    inner, arg = shift_call(inner_expr.args[0], 'the inner step')
    if ast.unparse(arg) != 'x': raise Refuse('_fft2: the inner step is not applied to x')
    ln = fn[0].lineno
    return (f'/-- translated from `propagate.py:_fft2` (line {ln}): index read by the step applied BEFORE the transform (`{inner}`): `y[i] = x[fft2InnerIdx n i]` -/\n'
            f'def fft2InnerIdx (n i : Int) : Int :=\n  {IDX[inner]}\n\n'
            f'/-- translated from `propagate.py:_fft2` (line {ln}): index read by the step applied AFTER the transform (`{outer}`) -/\n'
            f'def fft2OuterIdx (n i : Int) : Int :=\n  {IDX[outer]}\n\n'
            f'/-- translated from `propagate.py:_fft2` (line {ln}): `norm` of `np.fft.fft2`: 0 = backward (no scaling), 1 = ortho (1/sqrt N), 2 = forward (1/N) -/\n'
            f'def fft2Norm : Int :=\n  ({code} : Int)\n')

def _guard_call(mod):
    """`propagate_fft` must start by refusing `_has_tilt(wavefront)` with NotImplementedError"""
    fn = [n for n in ast.walk(mod) if isinstance(n, ast.FunctionDef) and n.name == 'propagate_fft'][0]
    body = [s for s in fn.body if not (isinstance(s, ast.Expr) and isinstance(s.value, ast.Constant))]
    first = body[0]
    if not (isinstance(first, ast.If) and ast.unparse(first.test) == '_has_tilt(wavefront)' and isinstance(first.body[0], ast.Raise)
            and 'NotImplementedError' in ast.unparse(first.body[0]) and not first.orelse):
        raise Refuse('propagate_fft: does not start with `if _has_tilt(wavefront): raise NotImplementedError`')

_generate_scratch = generate
def generate(repo):
    body, notes = _generate_scratch(repo)
    mod = ast.parse(open(os.path.join(repo, 'lentil/propagate.py')).read())
    _guard_call(mod)
    return (body + '\n' + _has_tilt(mod) + '\n' + _fft2_composition(mod) + '\n' + '\n'.join(_wiring(mod)),
            notes + ['_has_tilt: fold over the per-field tilt counts; propagate_fft wiring/guards/metadata and scratch_shape over an abstract scalar type'])

def _guarded(fn):
    """any structural surprise while walking the source (missing attribute, index, key) is a refusal of the translator"""
    def wrapped(repo):
        try:
            return fn(repo)
        except Refuse:
            raise
        except (AttributeError, IndexError, KeyError, TypeError, ValueError) as e:
            raise Refuse(f'source structure changed ({type(e).__name__}: {e})')
    return wrapped

MODULES = [
    {'name': 'FftScratch', 'src': 'lentil/propagate.py', 'generator': _guarded(generate), 'props': ['C09'],
     'imports': ['LentilVerif.Gen.PropagateMeta']},
]
