"""Translator spec for C09: the scratch-buffer index regions of `lentil.propagate.propagate_fft`
-> lean/LentilVerif/Gen/FftScratch.lean.

In the `if scratch is not None:` branch the code addresses the buffer four times with constant slices of `fft_shape`:
  scratch[a:b, c:d] = 0                                  (zeroed region)            -> `scratchZero`
  scratch[a:b, c:d] = insert(field, scratch[a:b, c:d])   (insert target, insert view) -> `scratchInsertTarget`, `scratchInsertView`
  field = _fft2(scratch[a:b, c:d])                        (transformed view)          -> `scratchFftView`
Each becomes `def … (S0 S1 : Int) : (Int × Int) × (Int × Int)` = ((row start, row stop), (col start, col stop)); the slice
bounds are translated by py2lean's expression translator with `fft_shape = (S0, S1)`. Anything else in that branch
(other statements, other buffers, steps, open slices) is refused."""
import ast, os
from py2lean import FnTranslator, Refuse, V, S, lean_val

def _region(tr, sub, env):
    """scratch[lo0:hi0, lo1:hi1] -> V([[lo0,hi0],[lo1,hi1]])"""
    if not (isinstance(sub, ast.Subscript) and isinstance(sub.value, ast.Name) and sub.value.id == 'scratch'):
        raise Refuse(f'propagate_fft: expected a slice of scratch, got {ast.unparse(sub)[:60]}')
    sl = sub.slice
    if not (isinstance(sl, ast.Tuple) and len(sl.elts) == 2 and all(isinstance(e, ast.Slice) for e in sl.elts)):
        raise Refuse(f'propagate_fft: scratch must be addressed with two slices: {ast.unparse(sub)[:60]}')
    out = []
    for e in sl.elts:
        if e.lower is None or e.upper is None or e.step is not None: raise Refuse('propagate_fft: open or stepped scratch slice')
        lo, hi = tr.expr(e.lower, env), tr.expr(e.upper, env)
        if not (isinstance(lo, S) and isinstance(hi, S)): raise Refuse('propagate_fft: scratch slice bound is not an integer expression')
        out.append(V([lo, hi]))
    return V(out)

def generate(repo):
    path = os.path.join(repo, 'lentil/propagate.py')
    mod = ast.parse(open(path).read())
    fn = [n for n in ast.walk(mod) if isinstance(n, ast.FunctionDef) and n.name == 'propagate_fft']
    if not fn: raise Refuse('propagate.py: propagate_fft not found')
    br = [n for n in fn[0].body if isinstance(n, ast.If) and ast.unparse(n.test) == 'scratch is not None']
    if len(br) != 1: raise Refuse('propagate_fft: `if scratch is not None:` not found')
    body = [s for s in br[0].body if not (isinstance(s, ast.Expr) and isinstance(s.value, ast.Constant))]
    if len(body) != 4: raise Refuse(f'propagate_fft: scratch branch has {len(body)} statements, expected guard, zeroing, insert loop, _fft2')
    guard, zero, loop, fft = body
    if not (isinstance(guard, ast.If) and 'scratch.shape' in ast.unparse(guard.test) and '>= fft_shape' in ast.unparse(guard.test)
            and ast.unparse(guard.test).startswith('not all(') and isinstance(guard.body[0], ast.Raise) and not guard.orelse):
        raise Refuse('propagate_fft: scratch size guard changed: ' + ast.unparse(guard.test)[:80])
    tr = FnTranslator(None, fn[0], {'params': []}, {}, {})
    env = {'fft_shape': V([S('S0'), S('S1')])}
    if not (isinstance(zero, ast.Assign) and len(zero.targets) == 1 and isinstance(zero.value, ast.Constant) and zero.value.value == 0):
        raise Refuse('propagate_fft: zeroing statement changed: ' + ast.unparse(zero)[:80])
    r_zero = _region(tr, zero.targets[0], env)
    if not (isinstance(loop, ast.For) and ast.unparse(loop.target) == 'field' and ast.unparse(loop.iter) == 'wavefront.data'
            and len(loop.body) == 1 and isinstance(loop.body[0], ast.Assign) and not loop.orelse):
        raise Refuse('propagate_fft: insert loop changed')
    ins = loop.body[0]
    call = ins.value
    if not (isinstance(call, ast.Call) and ast.unparse(call.func) == 'lentil.field.insert' and len(call.args) == 2
            and not call.keywords and ast.unparse(call.args[0]) == 'field'):
        raise Refuse('propagate_fft: insert call changed: ' + ast.unparse(ins)[:80])
    r_tgt = _region(tr, ins.targets[0], env)
    r_view = _region(tr, call.args[1], env)
    if not (isinstance(fft, ast.Assign) and isinstance(fft.value, ast.Call) and ast.unparse(fft.value.func) == '_fft2'
            and len(fft.value.args) == 1 and ast.unparse(fft.targets[0]) == 'field'):
        raise Refuse('propagate_fft: _fft2 call on the scratch view changed: ' + ast.unparse(fft)[:80])
    r_fft = _region(tr, fft.value.args[0], env)
    ty = '((Int × Int) × (Int × Int))'
    defs = []
    for name, r, what in (('scratchZero', r_zero, 'region set to zero'), ('scratchInsertTarget', r_tgt, 'region the insert result is written to'),
                          ('scratchInsertView', r_view, 'view the fields are inserted into'), ('scratchFftView', r_fft, 'view handed to _fft2')):
        defs.append(f'/-- translated from `propagate.py:propagate_fft` (scratch branch, line {br[0].lineno}): {what} -/\n'
                    f'def {name} (S0 S1 : Int) : {ty} :=\n  {lean_val(r)}\n')
    return '\n'.join(defs), ['propagate_fft: fft_shape = (S0, S1); only the scratch branch is translated']

def _has_tilt(mod):
    """`_has_tilt(wavefront)`: `for field in wavefront.data: if field.tilt: return True` / `return False` -> any-field test.
    The loop is translated structurally (shape checked statement by statement, anything else refused)."""
    fn = [n for n in ast.walk(mod) if isinstance(n, ast.FunctionDef) and n.name == '_has_tilt']
    if not fn: raise Refuse('propagate.py: _has_tilt not found')
    body = [s for s in fn[0].body if not (isinstance(s, ast.Expr) and isinstance(s.value, ast.Constant))]
    ok = (len(body) == 2 and isinstance(body[0], ast.For) and ast.unparse(body[0].target) == 'field'
          and ast.unparse(body[0].iter) == 'wavefront.data' and not body[0].orelse and len(body[0].body) == 1
          and isinstance(body[0].body[0], ast.If) and ast.unparse(body[0].body[0].test) == 'field.tilt'
          and not body[0].body[0].orelse and len(body[0].body[0].body) == 1
          and ast.unparse(body[0].body[0].body[0]) == 'return True' and ast.unparse(body[1]) == 'return False')
    if not ok: raise Refuse('_has_tilt: no longer `for field in wavefront.data: if field.tilt: return True` + `return False`')
    return (f'/-- translated from `propagate.py:_has_tilt` (line {fn[0].lineno}): true iff SOME field of the wavefront has a non-empty tilt list;\n'
            '`ntilt` = `len(field.tilt)` per field of `wavefront.data`, in order -/\n'
            'def hasTilt (ntilt : List Int) : Bool :=\n  ntilt.foldr (fun n rest => if (decide (n ≠ (0 : Int))) then true else rest) false\n')

def _guard_call(mod):
    """`propagate_fft` must start by refusing `_has_tilt(wavefront)` with NotImplementedError"""
    fn = [n for n in ast.walk(mod) if isinstance(n, ast.FunctionDef) and n.name == 'propagate_fft'][0]
    body = [s for s in fn.body if not (isinstance(s, ast.Expr) and isinstance(s.value, ast.Constant))]
    first = body[0]
    if not (isinstance(first, ast.If) and ast.unparse(first.test) == '_has_tilt(wavefront)' and isinstance(first.body[0], ast.Raise)
            and 'NotImplementedError' in ast.unparse(first.body[0]) and not first.orelse):
        raise Refuse('propagate_fft: does not start with `if _has_tilt(wavefront): raise NotImplementedError`')

_generate_scratch = generate
def generate(repo):
    body, notes = _generate_scratch(repo)
    mod = ast.parse(open(os.path.join(repo, 'lentil/propagate.py')).read())
    _guard_call(mod)
    return body + '\n' + _has_tilt(mod), notes + ['_has_tilt: structural translation of the any-field loop']

def _guarded(fn):
    """any structural surprise while walking the source (missing attribute, index, key) is a refusal of the translator"""
    def wrapped(repo):
        try:
            return fn(repo)
        except Refuse:
            raise
        except (AttributeError, IndexError, KeyError, TypeError, ValueError) as e:
            raise Refuse(f'source structure changed ({type(e).__name__}: {e})')
    return wrapped

MODULES = [
    {'name': 'FftScratch', 'src': 'lentil/propagate.py', 'generator': _guarded(generate), 'props': ['C09']},
]
