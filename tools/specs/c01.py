"""Translator spec for C01 (shared by C05): the *wiring* of lentil/fourier.py -> lean/LentilVerif/Gen/FourierWiring.lean.

What is translated (everything else in the four functions is refused):

  `_dft2_coords(m, n, M, N)`     four assignments `X = np.arange(a) - np.floor(b / 2.0)` and the returned order
                                 -> `fwCoord0..3 (p0 p1 p2 p3 i : Int) : Int` (index ↦ coordinate, `floor(b/2.0)` = `b / 2` on Int) and
                                    `fwLen0..3` (the `arange` lengths)
  `_dft2_matrices(...)`          `R, S, U, V = _dft2_coords(<args>)`, `E1 = np.exp(c * 1j * np.pi * <alpha> * np.outer(A, B))[.T]`, `E2 = …`
                                 -> `fwExpCoeff1/2 : Int` (the constant c) and `fwE1Arg / fwE2Arg ofInt <params> row col : R`, the real number
                                    t with entry[row, col] = exp(c·i·π·t); `.T` swaps which of (row, col) indexes A and B;
                                    which coordinate vector / offset / shift / alpha feeds which factor is read from the source
  `dft2(f, alpha, shape, shift, offset, unitary, out)`
                                 the `broadcast_to(·, (2,))` unpackings, `m, n = f.shape`, the `shape is None` default, the positional
                                 call of `_dft2_matrices`, the product `np.dot(E1.dot(f), E2, out=out)` (contraction lengths from the
                                 symbolic shapes; they must chain), the scaling expression under `if unitary:`
                                 -> `fwDft2E1Arg / fwDft2E2Arg` (arguments as passed), `fwDft2Prod` (nested sums), `fwDft2Scale`,
                                    `fwDft2ShapeDefault`, `fwDft2OutShape`
  `idft2(F, alpha, shape, shift, unitary, out)`
                                 `N = F.size`, `dft2(np.conj(F), alpha, shape, shift, unitary=unitary, out=out)`, `np.conj(F, out=F)`,
                                 `if unitary: return F`, `return np.divide(F, N, out=F)`
                                 -> `fwIdft2` (conj / dft2 / conj / divide plumbing) and `fwIdft2Offset` (dft2's default offset)

`Props/C01.lean: dft2_follows_source_wiring / idft2_follows_source_wiring` prove that the hand model `Lentil.dft2/idft2`
equals these generated definitions, so a source edit such as `S+offsetr`, `alpha_row*alpha_row`, a dropped `.T`, a swapped
product or an unconditional divide changes a generated definition and breaks a theorem (or is refused here)."""
import ast, os
from py2lean import Refuse

SRC = 'lentil/fourier.py'
MAT_KINDS = ['int'] * 4 + ['real'] * 4 + ['int'] * 2          # parameter kinds of _dft2_matrices, by position


def _u(n): return ast.unparse(n)

def _body(fn):
    b = list(fn.body)
    if b and isinstance(b[0], ast.Expr) and isinstance(b[0].value, ast.Constant) and isinstance(b[0].value.value, str): b = b[1:]
    return b

def _is_call(n, name):
    return isinstance(n, ast.Call) and _u(n.func) == name

def _names(t):
    if isinstance(t, ast.Tuple) and all(isinstance(e, ast.Name) for e in t.elts): return [e.id for e in t.elts]
    raise Refuse(f'expected a tuple of names, got {_u(t)[:60]}')

def _flat_mult(e):
    """flatten a product a*b*c (left-assoc) and a leading unary minus into (sign, [factors])"""
    if isinstance(e, ast.BinOp) and isinstance(e.op, ast.Mult):
        s1, f1 = _flat_mult(e.left); s2, f2 = _flat_mult(e.right)
        return s1 * s2, f1 + f2
    if isinstance(e, ast.UnaryOp) and isinstance(e.op, ast.USub):
        s, f = _flat_mult(e.operand); return -s, f
    return 1, [e]


# ------------------------------------------------------------------------------------------ _dft2_coords
def _coords(fn):
    params = [a.arg for a in fn.args.args]
    if len(params) != 4: raise Refuse(f'_dft2_coords: expected 4 parameters, got {params}')
    body = _body(fn)
    if len(body) != 5 or not isinstance(body[-1], ast.Return): raise Refuse('_dft2_coords: expected four assignments and a return')
    vecs = {}
    for s in body[:4]:
        if not (isinstance(s, ast.Assign) and len(s.targets) == 1 and isinstance(s.targets[0], ast.Name)):
            raise Refuse(f'_dft2_coords: unexpected statement {_u(s)[:60]}')
        e = s.value
        if not (isinstance(e, ast.BinOp) and isinstance(e.op, ast.Sub) and _is_call(e.left, 'np.arange') and len(e.left.args) == 1
                and not e.left.keywords and isinstance(e.left.args[0], ast.Name) and e.left.args[0].id in params):
            raise Refuse(f'_dft2_coords: expected `np.arange(p) - np.floor(q/2.0)`, got {_u(e)[:70]}')
        fl = e.right
        if not (_is_call(fl, 'np.floor') and len(fl.args) == 1 and isinstance(fl.args[0], ast.BinOp) and isinstance(fl.args[0].op, ast.Div)
                and isinstance(fl.args[0].right, ast.Constant) and fl.args[0].right.value in (2, 2.0)):
            raise Refuse(f'_dft2_coords: origin is not `np.floor(<int expr>/2.0)`: {_u(fl)[:70]}')
        num = _int_expr(fl.args[0].left, {p: f'p{i}' for i, p in enumerate(params)}, '_dft2_coords')
        vecs[s.targets[0].id] = {'len': params.index(e.left.args[0].id), 'origin_num': num}
    order = _names(body[-1].value)
    if sorted(order) != sorted(vecs) or len(order) != 4: raise Refuse(f'_dft2_coords: returns {order}, assigns {sorted(vecs)}')
    return params, [vecs[v] for v in order]

def _int_expr(e, env, where):
    """integer expression over the names of env (+, -, *, integer constants) -> Lean Int expression"""
    if isinstance(e, ast.Name):
        if e.id not in env: raise Refuse(f'{where}: unknown name {e.id}')
        return env[e.id]
    if isinstance(e, ast.Constant) and isinstance(e.value, int) and not isinstance(e.value, bool): return f'({e.value} : Int)'
    if isinstance(e, ast.BinOp) and isinstance(e.op, (ast.Add, ast.Sub, ast.Mult)):
        op = {ast.Add: '+', ast.Sub: '-', ast.Mult: '*'}[type(e.op)]
        return f'({_int_expr(e.left, env, where)} {op} {_int_expr(e.right, env, where)})'
    raise Refuse(f'{where}: not an integer expression: {_u(e)[:60]}')


# ------------------------------------------------------------------------------------------ _dft2_matrices
def _vec_expr(e, env, idx, where):
    """`X ± p` with X a coordinate vector, p a scalar parameter -> (lean, kind); idx = the Lean index variable"""
    if isinstance(e, ast.Name):
        v = env.get(e.id)
        if v is None: raise Refuse(f'{where}: unknown name {e.id}')
        if v[0] == 'vec': return f'{v[1]} {idx}', 'int', v[2]
        return v[1], v[0], None
    if isinstance(e, ast.BinOp) and isinstance(e.op, (ast.Add, ast.Sub)):
        op = '+' if isinstance(e.op, ast.Add) else '-'
        a, ka, la = _vec_expr(e.left, env, idx, where); b, kb, lb = _vec_expr(e.right, env, idx, where)
        ln = la if la is not None else lb
        if la is not None and lb is not None and la != lb: raise Refuse(f'{where}: vectors of different length combined: {_u(e)[:60]}')
        if ka == kb == 'int': return f'({a} {op} {b})', 'int', ln
        ca = f'ofInt ({a})' if ka == 'int' else a
        cb = f'ofInt ({b})' if kb == 'int' else b
        return f'({ca} {op} {cb})', 'real', ln
    raise Refuse(f'{where}: unsupported coordinate expression {_u(e)[:60]}')

def _matrices(fn, coords_params, coords_vecs):
    params = [a.arg for a in fn.args.args]
    if len(params) != len(MAT_KINDS): raise Refuse(f'_dft2_matrices: expected {len(MAT_KINDS)} parameters, got {params}')
    kinds = dict(zip(params, MAT_KINDS))
    body = _body(fn)
    if len(body) != 4: raise Refuse('_dft2_matrices: expected coords call, E1, E2, return')
    c = body[0]
    if not (isinstance(c, ast.Assign) and _is_call(c.value, '_dft2_coords') and not c.value.keywords
            and len(c.value.args) == 4 and all(isinstance(a, ast.Name) and kinds.get(a.id) == 'int' for a in c.value.args)):
        raise Refuse(f'_dft2_matrices: coordinate call changed: {_u(c)[:80]}')
    cargs = [a.id for a in c.value.args]
    vnames = _names(c.targets[0])
    if len(vnames) != 4: raise Refuse('_dft2_matrices: expected four coordinate vectors')
    env = {p: (kinds[p], p) for p in params}
    for k, v in enumerate(vnames):
        env[v] = ('vec', f'fwCoord{k} ' + ' '.join(cargs), cargs[coords_vecs[k]['len']])
    mats = {}
    for s in body[1:3]:
        if not (isinstance(s, ast.Assign) and len(s.targets) == 1 and isinstance(s.targets[0], ast.Name)):
            raise Refuse(f'_dft2_matrices: unexpected statement {_u(s)[:60]}')
        e, transposed = s.value, False
        if isinstance(e, ast.Attribute) and e.attr == 'T': e, transposed = e.value, True
        if not (_is_call(e, 'np.exp') and len(e.args) == 1 and not e.keywords):
            raise Refuse(f'_dft2_matrices: expected np.exp(...)[.T], got {_u(s.value)[:70]}')
        sign, fac = _flat_mult(e.args[0])
        const = [f for f in fac if isinstance(f, ast.Constant) and isinstance(f.value, (int, float)) and not isinstance(f.value, bool)]
        imag = [f for f in fac if isinstance(f, ast.Constant) and isinstance(f.value, complex)]
        pis = [f for f in fac if _u(f) == 'np.pi']
        nm = [f for f in fac if isinstance(f, ast.Name)]
        outer = [f for f in fac if _is_call(f, 'np.outer')]
        if not (len(const) == 1 and len(imag) == 1 and imag[0].value == 1j and len(pis) == 1 and len(nm) == 1 and len(outer) == 1
                and len(fac) == 5 and float(const[0].value) == int(const[0].value)):
            raise Refuse(f'_dft2_matrices: exponent is not `c * 1j * np.pi * alpha * np.outer(A, B)`: {_u(e.args[0])[:90]}')
        if kinds.get(nm[0].id) != 'real': raise Refuse(f'_dft2_matrices: sampling factor {nm[0].id} is not a real parameter')
        o = outer[0]
        if len(o.args) != 2 or o.keywords: raise Refuse('_dft2_matrices: np.outer needs two positional arguments')
        ia, ib = ('col', 'row') if transposed else ('row', 'col')
        A, ka, lenA = _vec_expr(o.args[0], env, ia, '_dft2_matrices')
        B, kb, lenB = _vec_expr(o.args[1], env, ib, '_dft2_matrices')
        if lenA is None or lenB is None: raise Refuse('_dft2_matrices: np.outer argument without a coordinate vector')
        if ka == 'int': A = f'ofInt ({A})'
        if kb == 'int': B = f'ofInt ({B})'
        rows, cols = (lenB, lenA) if transposed else (lenA, lenB)
        mats[s.targets[0].id] = {'coeff': sign * int(const[0].value), 'arg': f'{nm[0].id} * ({A} * {B})', 'rows': rows, 'cols': cols,
                                 'transposed': transposed}
    ret = _names(body[3].value) if isinstance(body[3], ast.Return) else None
    if ret is None or len(ret) != 2 or set(ret) != set(mats): raise Refuse('_dft2_matrices: must return the two matrices')
    return params, [mats[ret[0]], mats[ret[1]]]


# ------------------------------------------------------------------------------------------ dft2
LEAF = {('alpha', 0): 'alpha0', ('alpha', 1): 'alpha1', ('shape', 0): 'shape0', ('shape', 1): 'shape1', ('shift', 0): 'shift0',
        ('shift', 1): 'shift1', ('offset', 0): 'offset0', ('offset', 1): 'offset1', ('fshape', 0): 'm', ('fshape', 1): 'n'}
LEAF_KIND = {'alpha': 'real', 'shape': 'int', 'shift': 'real', 'offset': 'int', 'fshape': 'int'}

def _real_expr(e, env, where):
    """real scalar expression over unpacked parameters: *, +, -, np.sqrt, np.abs -> Lean (sqrt, abs are arguments)"""
    if isinstance(e, ast.Name):
        v = env.get(e.id)
        if not (isinstance(v, tuple) and v in LEAF): raise Refuse(f'{where}: {e.id} is not an unpacked parameter component')
        return LEAF[v] if LEAF_KIND[v[0]] == 'real' else f'ofInt {LEAF[v]}'
    if isinstance(e, ast.BinOp) and isinstance(e.op, (ast.Add, ast.Sub, ast.Mult)):
        op = {ast.Add: '+', ast.Sub: '-', ast.Mult: '*'}[type(e.op)]
        return f'({_real_expr(e.left, env, where)} {op} {_real_expr(e.right, env, where)})'
    if isinstance(e, ast.Call) and _u(e.func) in ('np.sqrt', 'np.abs') and len(e.args) == 1 and not e.keywords:
        return f'({_u(e.func)[3:]} {_real_expr(e.args[0], env, where)})'
    raise Refuse(f'{where}: unsupported scaling expression {_u(e)[:60]}')

def _int_pair(t):
    try:
        v = ast.literal_eval(t)
    except Exception:
        return None
    if isinstance(v, (tuple, list)) and len(v) == 2 and all(isinstance(x, int) and not isinstance(x, bool) for x in v): return (v[0], v[1])
    return None

def _dft2(fn, mat_params, mats):
    params = [a.arg for a in fn.args.args]
    if params != ['f', 'alpha', 'shape', 'shift', 'offset', 'unitary', 'out']: raise Refuse(f'dft2: parameters changed: {params}')
    defaults = {p: _u(d) for p, d in zip(params[-len(fn.args.defaults):], fn.args.defaults)}
    # shape=None / out=None are structural; the defaults of shift, offset (pairs of integer literals) and unitary (a bool literal) are
    # EMITTED (fwDft2Default…, wave 12) and C01.default_calls_roundtrip is a statement about them
    if set(defaults) != {'shape', 'shift', 'offset', 'unitary', 'out'} or defaults['shape'] != 'None' or defaults['out'] != 'None' \
            or defaults['unitary'] not in ('True', 'False') or not _int_pair(defaults['shift']) or not _int_pair(defaults['offset']):
        raise Refuse(f'dft2: defaults changed: {defaults}')
    env, shape_default, call, prod, scale = {}, None, None, None, None
    out_guard = False
    for s in _body(fn):
        t = _u(s)
        if isinstance(s, ast.Assign) and isinstance(s.targets[0], ast.Tuple) and _is_call(s.value, 'np.broadcast_to'):
            a = s.value.args
            if not (len(a) == 2 and isinstance(a[0], ast.Name) and a[0].id in ('alpha', 'shape', 'shift', 'offset') and _u(a[1]) == '(2,)'):
                raise Refuse(f'dft2: unexpected broadcast {t[:70]}')
            names = _names(s.targets[0])
            if len(names) != 2: raise Refuse(f'dft2: expected two targets: {t[:70]}')
            for k, nme in enumerate(names): env[nme] = (a[0].id, k)
        elif t == 'f = np.asarray(f)': pass
        elif isinstance(s, ast.Assign) and isinstance(s.targets[0], ast.Tuple) and _u(s.value) == 'f.shape':
            names = _names(s.targets[0])
            if len(names) != 2: raise Refuse('dft2: f.shape must unpack into two names')
            for k, nme in enumerate(names): env[nme] = ('fshape', k)
        elif isinstance(s, ast.If) and _u(s.test) == 'shape is None':
            if not (len(s.body) == 1 and not s.orelse and isinstance(s.body[0], ast.Assign) and _u(s.body[0].targets[0]) == 'shape'
                    and isinstance(s.body[0].value, (ast.List, ast.Tuple)) and len(s.body[0].value.elts) == 2
                    and all(isinstance(x, ast.Name) and env.get(x.id, (None,))[0] == 'fshape' for x in s.body[0].value.elts)):
                raise Refuse(f'dft2: shape default changed: {t[:80]}')
            shape_default = [LEAF[env[x.id]] for x in s.body[0].value.elts]
        elif isinstance(s, ast.If) and _u(s.test) == 'out is not None':
            g = s.body[0] if len(s.body) == 1 and not s.orelse else None
            if not (isinstance(g, ast.If) and _u(g.test) == 'not np.can_cast(complex, out.dtype)' and len(g.body) == 1 and not g.orelse
                    and isinstance(g.body[0], ast.Raise) and _u(g.body[0].exc).startswith('TypeError(')):
                raise Refuse('dft2: out dtype guard changed')
            out_guard = True
        elif isinstance(s, ast.Assign) and _is_call(s.value, '_dft2_matrices'):
            if s.value.keywords or len(s.value.args) != len(mat_params) or not all(isinstance(a, ast.Name) for a in s.value.args):
                raise Refuse(f'dft2: _dft2_matrices call changed: {t[:90]}')
            call = (_names(s.targets[0]), [a.id for a in s.value.args])
        elif isinstance(s, ast.Assign) and _u(s.targets[0]) == 'F':
            prod = s.value
            prod_out = [(_k.arg, _u(_k.value)) for _k in s.value.keywords] if isinstance(s.value, ast.Call) else []
        elif isinstance(s, ast.If) and _u(s.test) == 'unitary':
            c = s.body[0].value if len(s.body) == 1 and isinstance(s.body[0], ast.Expr) else None
            if not (c is not None and not s.orelse and _is_call(c, 'np.multiply') and len(c.args) == 2 and _u(c.args[0]) == 'F'
                    and [(_k.arg, _u(_k.value)) for _k in c.keywords] == [('out', 'F')]):
                raise Refuse(f'dft2: unitary scaling statement changed: {t[:90]}')
            scale = _real_expr(c.args[1], env, 'dft2')
        elif isinstance(s, ast.Return):
            if _u(s.value) != 'F': raise Refuse('dft2: must return F')
        else:
            raise Refuse(f'dft2: unexpected statement `{t[:70]}`')
    if None in (shape_default, call, prod, scale): raise Refuse('dft2: a required statement is missing')
    if not out_guard or prod_out != [('out', 'out')]: raise Refuse('dft2: the out= path (dtype guard, np.dot(..., out=out)) changed')
    (e1n, e2n), cargs = call
    # arguments as passed: matrices parameter -> Lean expression of the dft2 leaf
    passed = {}
    for p, a, kind in zip(mat_params, cargs, MAT_KINDS):
        v = env.get(a)
        if not (isinstance(v, tuple) and v in LEAF): raise Refuse(f'dft2: argument {a} of _dft2_matrices is not an unpacked parameter component')
        if LEAF_KIND[v[0]] != kind: raise Refuse(f'dft2: {a} ({LEAF_KIND[v[0]]}) passed for the {kind} parameter {p}')
        passed[p] = LEAF[v]
    # product tree: dot(A, B) / A.dot(B) over E1, f, E2 with symbolic shapes
    shp = {e1n: (passed[mats[0]['rows']], passed[mats[0]['cols']]), e2n: (passed[mats[1]['rows']], passed[mats[1]['cols']]), 'f': ('m', 'n')}
    lname = {e1n: 'e1', e2n: 'e2', 'f': 'f'}
    counter = [0]
    def tree(e, top=False):
        if isinstance(e, ast.Name):
            if e.id not in shp: raise Refuse(f'dft2: unknown matrix {e.id} in the product')
            return (lambda i, j, nme=e.id: f'{lname[nme]} {i} {j}'), shp[e.id]
        if isinstance(e, ast.Call) and (_u(e.func) == 'np.dot' or (isinstance(e.func, ast.Attribute) and e.func.attr == 'dot')):
            kws = [(k.arg, _u(k.value)) for k in e.keywords]
            if kws not in ([], [('out', 'out')]) or (kws and not top): raise Refuse(f'dft2: unexpected keywords in {_u(e)[:60]}')
            if _u(e.func) == 'np.dot':
                if len(e.args) != 2: raise Refuse('dft2: np.dot needs two operands')
                l, r = e.args
            else:
                if len(e.args) != 1: raise Refuse('dft2: .dot needs one operand')
                l, r = e.func.value, e.args[0]
            (fl, (lr, lc)), (fr, (rr, rc)) = tree(l), tree(r)
            if lc != rr: raise Refuse(f'dft2: shapes do not chain in {_u(e)[:60]}: ({lr},{lc})·({rr},{rc})')
            k = f'k{counter[0]}'; counter[0] += 1
            return (lambda i, j, fl=fl, fr=fr, k=k, n=lc: f'(sum ({n}).toNat fun {k} => {fl(i, f"(Int.ofNat {k})")} * {fr(f"(Int.ofNat {k})", j)})'), (lr, rc)
        raise Refuse(f'dft2: unsupported product expression {_u(e)[:60]}')
    fprod, oshape = tree(prod, top=True)
    return {'passed': passed, 'prod': fprod('u', 'v'), 'oshape': oshape, 'scale': scale, 'shape_default': shape_default,
            'offset_default': defaults['offset'], 'unitary_default': defaults['unitary'], 'shift_default': defaults['shift'], 'out_guard': out_guard}


# ------------------------------------------------------------------------------------------ idft2
class _Arr:
    """symbolic array value inside idft2: ('in',) | ('conj', v) | ('div', v, int_expr) | ('dft2', v, args, unitary_expr)"""
    def __init__(s, *t): s.t = t

def _emit_arr(v, i, j):
    t = v.t
    if t[0] == 'in': return f'F {i} {j}'
    if t[0] == 'conj': return f'conj ({_emit_arr(t[1], i, j)})'
    if t[0] == 'div': return f'divInt ({_emit_arr(t[1], i, j)}) {t[2]}'
    if t[0] == 'dft2':
        inner = _emit_arr(t[1], 'a', 'b')
        return f'dft2 (fun a b => {inner}) {t[2]["alpha"]} {t[2]["shape"]} {t[2]["shift"]} {t[3]} {i} {j}'
    raise Refuse('idft2: internal: unknown array node')

def _idft2(fn, dft2_fn, dft2_info):
    """symbolic evaluation of idft2: which array is conjugated, what is passed to which dft2 parameter, what the result is divided by,
    under which condition"""
    params = [a.arg for a in fn.args.args]
    if params[0] != 'F' or set(params[1:]) != {'alpha', 'shape', 'shift', 'unitary', 'out'}: raise Refuse(f'idft2: parameters changed: {params}')
    idef = {p: _u(d) for p, d in zip(params[-len(fn.args.defaults):], fn.args.defaults)}
    if set(idef) != {'shape', 'shift', 'unitary', 'out'} or idef['shape'] != 'None' or idef['out'] != 'None' \
            or idef['unitary'] not in ('True', 'False') or not _int_pair(idef['shift']):
        raise Refuse(f'idft2: defaults changed: {idef}')
    dparams = [a.arg for a in dft2_fn.args.args]
    env = {'F': _Arr('in')}
    ints = {}
    flags = {'passes_out': False, 'div_inplace': None, 'shift_default': _int_pair(idef['shift']), 'unitary_default': idef['unitary'] == 'True'}      # the out= plumbing of idft2 (wave 12): emitted as Gen constants
    def bexpr(e):
        if isinstance(e, ast.Name) and e.id == 'unitary': return 'unitary'
        if isinstance(e, ast.Constant) and isinstance(e.value, bool): return 'true' if e.value else 'false'
        if isinstance(e, ast.UnaryOp) and isinstance(e.op, ast.Not): return f'(!{bexpr(e.operand)})'
        raise Refuse(f'idft2: unsupported boolean {_u(e)[:40]}')
    def iexpr(e):
        if isinstance(e, ast.Name) and e.id in ints: return ints[e.id]
        if isinstance(e, ast.Attribute) and e.attr == 'size' and isinstance(e.value, ast.Name) and env.get(e.value.id) is not None \
                and env[e.value.id].t == ('in',): return '(s0 * s1)'
        if isinstance(e, ast.Subscript) and _u(e.value).endswith('.shape') and isinstance(e.slice, ast.Constant) and e.slice.value in (0, 1) \
                and env.get(_u(e.value)[:-6]) is not None and env[_u(e.value)[:-6]].t == ('in',): return f's{e.slice.value}'
        if isinstance(e, ast.Constant) and isinstance(e.value, int) and not isinstance(e.value, bool): return f'({e.value} : Int)'
        if isinstance(e, ast.BinOp) and isinstance(e.op, (ast.Mult, ast.Add, ast.Sub)):
            return f'({iexpr(e.left)} {dict([(ast.Mult, "*"), (ast.Add, "+"), (ast.Sub, "-")])[type(e.op)]} {iexpr(e.right)})'
        raise Refuse(f'idft2: divisor is not an integer expression of the input size: {_u(e)[:50]}')
    def aexpr(e):
        if isinstance(e, ast.Name):
            if e.id not in env: raise Refuse(f'idft2: unknown array {e.id}')
            return env[e.id]
        if isinstance(e, ast.Call):
            fn_ = _u(e.func)
            kws = {k.arg: k.value for k in e.keywords}
            if fn_ == 'np.asarray' and len(e.args) == 1 and not kws: return aexpr(e.args[0])
            if fn_ == 'np.conj' and len(e.args) == 1 and set(kws) <= {'out'}: return _Arr('conj', aexpr(e.args[0]))
            if fn_ == 'np.divide' and len(e.args) == 2 and set(kws) <= {'out'}:
                if 'out' in kws and _u(kws['out']) != _u(e.args[0]): raise Refuse(f'idft2: np.divide writes into another array: {_u(e)[:60]}')
                if flags['div_inplace'] is not None: raise Refuse('idft2: more than one np.divide')
                flags['div_inplace'] = 'out' in kws
                return _Arr('div', aexpr(e.args[0]), iexpr(e.args[1]))
            if fn_ == 'dft2':
                if len(e.args) > len(dparams): raise Refuse('idft2: too many arguments to dft2')
                passed = dict(zip(dparams, e.args)); 
                for k, v in kws.items():
                    if k in passed or k not in dparams: raise Refuse(f'idft2: bad keyword {k} in the dft2 call')
                    passed[k] = v
                if 'f' not in passed: raise Refuse('idft2: dft2 called without an input array')
                args = {}
                for k in ('alpha', 'shape', 'shift'):
                    if k not in passed or not isinstance(passed[k], ast.Name) or passed[k].id not in ('alpha', 'shape', 'shift'):
                        raise Refuse(f'idft2: dft2 parameter {k} is not fed by one of idft2\'s own parameters')
                    args[k] = passed[k].id
                if 'offset' in passed: raise Refuse('idft2: dft2 is called with an explicit offset')
                if 'out' in passed and _u(passed['out']) != 'out': raise Refuse('idft2: out= of the dft2 call changed')
                flags['passes_out'] = 'out' in passed
                un = bexpr(passed['unitary']) if 'unitary' in passed else ('true' if dft2_info['unitary_default'] == 'True' else 'false')
                return _Arr('dft2', aexpr(passed['f']), args, un)
        if isinstance(e, ast.BinOp) and isinstance(e.op, ast.Div):
            if flags['div_inplace'] is not None: raise Refuse('idft2: more than one division')
            flags['div_inplace'] = False
            return _Arr('div', aexpr(e.left), iexpr(e.right))
        raise Refuse(f'idft2: unsupported array expression {_u(e)[:60]}')
    branches = []      # (condition or None, array value)
    for st in _body(fn):
        t = _u(st)
        if isinstance(st, ast.Assign) and len(st.targets) == 1 and isinstance(st.targets[0], ast.Name):
            nm = st.targets[0].id
            try:
                ints[nm] = iexpr(st.value); continue
            except Refuse:
                pass
            env[nm] = aexpr(st.value)
        elif isinstance(st, ast.Expr) and isinstance(st.value, ast.Call) and _u(st.value.func) == 'np.conj' and len(st.value.args) == 1:
            kws = {k.arg: _u(k.value) for k in st.value.keywords}
            tgt = _u(st.value.args[0])
            if kws != {'out': tgt} or tgt not in env: raise Refuse(f'idft2: in-place conjugation changed: {t[:60]}')
            env[tgt] = _Arr('conj', env[tgt])
        elif isinstance(st, ast.If) and len(st.body) == 1 and isinstance(st.body[0], ast.Return) and not st.orelse:
            branches.append((bexpr(st.test), aexpr(st.body[0].value)))
        elif isinstance(st, ast.Return):
            branches.append((None, aexpr(st.value))); break
        else:
            raise Refuse(f'idft2: unexpected statement `{t[:70]}`')
    if not branches or branches[-1][0] is not None: raise Refuse('idft2: no final return')
    body = _emit_arr(branches[-1][1], 'i', 'j')
    for cond, v in reversed(branches[:-1]):
        body = f'if {cond} then {_emit_arr(v, "i", "j")} else {body}'
    off = dft2_info['offset_default']
    try:
        o = ast.literal_eval(off); o0, o1 = int(o[0]), int(o[1])
    except Exception:
        raise Refuse(f'dft2: offset default is not a pair of integers: {off}')
    return body, (o0, o1), flags


def generate(repo):
    path = os.path.join(repo, SRC)
    mod = ast.parse(open(path).read())
    fns = {n.name: n for n in mod.body if isinstance(n, ast.FunctionDef)}
    for need in ('_dft2_coords', '_dft2_matrices', 'dft2', 'idft2'):
        if need not in fns: raise Refuse(f'fourier.py: function {need} not found')
    cparams, cvecs = _coords(fns['_dft2_coords'])
    mparams, mats = _matrices(fns['_dft2_matrices'], cparams, cvecs)
    d = _dft2(fns['dft2'], mparams, mats)
    idft2_body, idft2_off, idft2_flags = _idft2(fns['idft2'], fns['dft2'], d)
    L = []
    for k, v in enumerate(cvecs):
        L.append(f'/-- `_dft2_coords` (line {fns["_dft2_coords"].lineno}): coordinate of index `i` of the {k + 1}-th returned vector, '
                 f'`np.arange(p{v["len"]}) - np.floor(…/2.0)` -/\n'
                 f'def fwCoord{k} (p0 p1 p2 p3 i : Int) : Int := i - {v["origin_num"]} / 2\n'
                 f'/-- length of that vector -/\ndef fwLen{k} (p0 p1 p2 p3 : Int) : Int := p{v["len"]}\n')
    sig = ' '.join(f'({p} : {"Int" if k == "int" else "R"})' for p, k in zip(mparams, MAT_KINDS))
    L.append('section\nvariable {R : Type} [Add R] [Sub R] [Mul R]\n')
    for k, mt in enumerate(mats, 1):
        L.append(f'/-- `_dft2_matrices` (line {fns["_dft2_matrices"].lineno}): matrix {k} is `np.exp(fwExpCoeff{k} · 1j · π · t)` with `t` this value at '
                 f'entry `[row, col]`{" (after `.T`)" if mt["transposed"] else ""} -/\n'
                 f'def fwE{k}Arg (ofInt : Int → R) {sig} (row col : Int) : R :=\n  {mt["arg"]}\n'
                 f'def fwExpCoeff{k} : Int := {mt["coeff"]}\n'
                 f'/-- the head of that exponent, `c * 1j * np.pi * t`, as the real phase `φ` with entry = `exp(1j · φ)` -/\n'
                 f'def fwExpPhase{k} (ofInt : Int → R) (pi t : R) : R := ofInt ({mt["coeff"]}) * pi * t\n')
    dsig = '(m n : Int) (alpha0 alpha1 : R) (shape0 shape1 : Int) (shift0 shift1 : R) (offset0 offset1 : Int)'
    pas = ' '.join(d['passed'][p] for p in mparams)
    for k in (1, 2):
        L.append(f'/-- `dft2` (line {fns["dft2"].lineno}): the argument of matrix {k} with the values `dft2` passes to `_dft2_matrices` '
                 f'(`x_row, x_col = np.broadcast_to(x, (2,))`, `m, n = f.shape`) -/\n'
                 f'def fwDft2E{k}Arg (ofInt : Int → R) {dsig} (row col : Int) : R :=\n  fwE{k}Arg ofInt {pas} row col\n')
    L.append(f'/-- `dft2`: the factor applied under `if unitary:` -/\n'
             f'def fwDft2Scale (ofInt : Int → R) (sqrt abs : R → R) {dsig} : R :=\n  {d["scale"]}\n')
    L.append('end\n')
    L.append(f'/-- `dft2`: entry `[u, v]` of the matrix product as written in the source; contraction lengths are the symbolic shapes -/\n'
             f'def fwDft2Prod {{K : Type}} [Add K] [Mul K] (sum : Nat → (Nat → K) → K) (e1 e2 f : Int → Int → K)\n'
             f'    (m n shape0 shape1 : Int) (u v : Int) : K :=\n  {d["prod"]}\n')
    L.append(f'/-- `dft2`: shape of the result, and the `shape=None` default -/\n'
             f'def fwDft2OutShape (m n shape0 shape1 : Int) : Int × Int := ({d["oshape"][0]}, {d["oshape"][1]})\n'
             f'def fwDft2ShapeDefault (m n : Int) : Int × Int := ({d["shape_default"][0]}, {d["shape_default"][1]})\n')
    L.append('/-- `dft2`, the `out=` path: under `if out is not None:` a buffer whose dtype cannot hold complex numbers '
             '(`not np.can_cast(complex, out.dtype)`) raises `TypeError`; otherwise the product is evaluated with `np.dot(…, out=out)`, whose result '
             'IS the buffer (and the unitary scaling writes into it) -/\n'
             'def fwOutRefused (canCastComplex : Bool) : Bool := !canCastComplex\n'
             'def fwOutResultIsBuffer : Bool := true\n')
    L.append(f'/-- `idft2` (line {fns["idft2"].lineno}), evaluated symbolically: which array is conjugated before and after, which of its parameters '
             f'feed `dft2`\'s `alpha`, `shape`, `shift`, `unitary`, the divisor and the condition under which it is applied. `dft2` is called with '
             f'its default offset `fwIdft2Offset`. -/\n'
             f'def fwIdft2 {{K A S H : Type}} (conj : K → K) (divInt : K → Int → K)\n'
             f'    (dft2 : (Int → Int → K) → A → S → H → Bool → Int → Int → K)\n'
             f'    (F : Int → Int → K) (s0 s1 : Int) (alpha : A) (shape : S) (shift : H) (unitary : Bool) (i j : Int) : K :=\n'
             f'  {idft2_body}\n'
             f'def fwIdft2Offset : Int × Int := ({idft2_off[0]}, {idft2_off[1]})\n')
    b = lambda x: 'true' if x else 'false'
    L.append(f'/-- `idft2`, the `out=` path: whether `out` is handed to the `dft2` call (`dft2(…, out=out)`); the conjugation after it is '
             f'`np.conj(X, out=X)` (in place on the array `dft2` returned — anything else is refused by the translator); whether the division '
             f'of the non-unitary branch is `np.divide(X, n, out=X)` (in place, so the returned object is still the array `dft2` returned) '
             f'rather than a fresh `X / n` -/\n'
             f'def fwIdft2PassesOut : Bool := {b(idft2_flags["passes_out"])}\n'
             f'def fwIdft2ConjInPlace : Bool := true\n'
             f'def fwIdft2DivideInPlace : Bool := {b(bool(idft2_flags["div_inplace"]))}\n')
    ds, do_ = _int_pair(d['shift_default']), _int_pair(d['offset_default'])
    L.append(f'/-- the default arguments of `dft2` and `idft2` (what a call `dft2(f, alpha)` / `idft2(F, alpha)` uses): `shift`, `offset`, `unitary`; '
             f'`shape=None` is `fwDft2ShapeDefault`, `out=None` a fresh allocation -/\n'
             f'def fwDft2DefaultShift : Int × Int := ({ds[0]}, {ds[1]})\n'
             f'def fwDft2DefaultOffset : Int × Int := ({do_[0]}, {do_[1]})\n'
             f'def fwDft2DefaultUnitary : Bool := {b(d["unitary_default"] == "True")}\n'
             f'def fwIdft2DefaultShift : Int × Int := ({idft2_flags["shift_default"][0]}, {idft2_flags["shift_default"][1]})\n'
             f'def fwIdft2DefaultUnitary : Bool := {b(idft2_flags["unitary_default"])}\n')
    notes = ['fourier.py: np.floor(b/2.0) translated as Int floor division b / 2 (exact for array sizes); np.broadcast_to(x, (2,)) as the '
             'pair (x0, x1) (a scalar x is x0 = x1, exercised by the harness); out=/lru_cache/asarray are not modelled']
    return '\n'.join(L), notes


MODULES = [
    {'name': 'FourierWiring', 'src': SRC, 'generator': generate, 'props': ['C01', 'C05'], 'imports': []},
]
