"""C07: `lentil.plane._mul_pixelscale(a_pixelscale, b_pixelscale)` — each argument is None or a pair.

The translator has no optional-pair parameter kind; the function is translated four times, once per None-pattern of
its arguments (kind 'none' folds the `is None` tests statically), and `Model/PlaneMeta.lean` dispatches on the
`Option`s. The value `None` of the first variant is rendered as `()`. Pixel scales are floats in lentil and `Int`
here: the function only compares them for equality and passes them on, which is the same over any type with
decidable equality (listed in the trusted base of C07)."""
import ast
from py2lean import V, NoneV

def _ret_none(tr, st, env):
    # `return out` where out is statically None  ->  unit
    if isinstance(st.value, ast.Name) and isinstance(env.get(st.value.id), NoneV): return V([])
    return None

def _sig(a, b):
    return {'py_name': '_mul_pixelscale', 'params': [('a_pixelscale', a), ('b_pixelscale', b)], 'ret_override': _ret_none,
            'lean_name': 'mulPixelscale' + ('N' if a == 'none' else 'P') + ('N' if b == 'none' else 'P')}

PLANEPX = {
    # the NN variant returns None, which the translator self-check (tools/transcheck.py) cannot flatten: the dummy
    # `call_as` entry marks it as not self-checkable (it is the constant `Except.ok ()`); the other three are self-checked
    '_mul_pixelscale#NN': dict(_sig('none', 'none'), call_as={'__not_selfchecked__()': 'a_pixelscale'}),
    '_mul_pixelscale#NP': _sig('none', 'pair'),
    '_mul_pixelscale#PN': _sig('pair', 'none'),
    '_mul_pixelscale#PP': _sig('pair', 'pair'),
}

MODULES = [
    {'name': 'PlanePx', 'src': 'lentil/plane.py', 'sigs': PLANEPX, 'props': ['C07']},
]


# ---------------------------------------------------------------------------------------------------------------------
# Metadata hand-over of Plane.multiply / Pupil.multiply / Image.multiply: which attribute of which operand goes where.
# Not integer code, so not py2lean's expression subset: a dedicated AST reader that accepts exactly the statement shapes
# below and REFUSES anything else (a refusal breaks the tie of C07).
def _find_method(mod, cls, name):
    for node in mod.body:
        if isinstance(node, ast.ClassDef) and node.name == cls:
            for f in node.body:
                if isinstance(f, ast.FunctionDef) and f.name == name: return f
    raise Refuse(f'{cls}.{name} not found')

def _attr_param(e, allowed=('wavefront', 'self')):
    """`wavefront.focal_length` -> 'wavefront_focal_length'; a bare local name -> itself"""
    if isinstance(e, ast.Attribute) and isinstance(e.value, ast.Name) and e.value.id in allowed: return f'{e.value.id}_{e.attr}'
    if isinstance(e, ast.Name): return e.id
    raise Refuse(f'hand-over source not understood: {ast.unparse(e)}')

FIELDS = ['wavelength', 'pixelscale', 'focal_length', 'shape', 'ptype']
FTYPE = {'wavelength': 'M', 'focal_length': 'M', 'pixelscale': 'P', 'shape': 'S', 'ptype': 'T'}

def _override(fn, cls):
    """body of a `multiply` override: wavefront = super().multiply(wavefront); wavefront.<a> = <src> ...; return wavefront"""
    st = [s for s in fn.body if not (isinstance(s, ast.Expr) and isinstance(s.value, ast.Constant))]
    if not st or ast.unparse(st[0]) != 'wavefront = super().multiply(wavefront)': raise Refuse(f'{cls}.multiply: first statement changed')
    if ast.unparse(st[-1]) != 'return wavefront': raise Refuse(f'{cls}.multiply: does not return the wavefront')
    sets = []
    for s in st[1:-1]:
        if not (isinstance(s, ast.Assign) and len(s.targets) == 1 and isinstance(s.targets[0], ast.Attribute)
                and ast.unparse(s.targets[0].value) == 'wavefront' and s.targets[0].attr in FIELDS):
            raise Refuse(f'{cls}.multiply: statement not understood: {ast.unparse(s)}')
        src = s.value
        if isinstance(src, ast.Attribute) and ast.unparse(src.value) == 'lentil': par = f'lentil_{src.attr}'
        else: par = _attr_param(src, ('self',))
        sets.append((s.targets[0].attr, par))
    return sets

def gen_handover(repo):
    import os
    mod = ast.parse(open(os.path.join(repo, 'lentil/plane.py')).read())
    fn = _find_method(mod, 'Plane', 'multiply')
    calls = [n for n in ast.walk(fn) if isinstance(n, ast.Call) and ast.unparse(n.func) == 'lentil.Wavefront.empty']
    if len(calls) != 1 or calls[0].args: raise Refuse('Plane.multiply: lentil.Wavefront.empty(...) call not found / positional arguments')
    kw = {k.arg: k.value for k in calls[0].keywords}
    if sorted(kw) != sorted(FIELDS): raise Refuse(f'Plane.multiply: Wavefront.empty keywords {sorted(kw)} != {sorted(FIELDS)}')
    src = {k: _attr_param(kw[k], ('wavefront',)) for k in FIELDS}
    assigns = {ast.unparse(s.targets[0]): s.value for s in ast.walk(fn) if isinstance(s, ast.Assign) and len(s.targets) == 1}
    # pixelscale = _mul_pixelscale(<a>, <b>)
    px = assigns.get('pixelscale')
    if not (isinstance(px, ast.Call) and ast.unparse(px.func) == '_mul_pixelscale' and len(px.args) == 2 and not px.keywords):
        raise Refuse('Plane.multiply: pixelscale is not _mul_pixelscale(a, b)')
    pxa = [_attr_param(a) for a in px.args]
    if sorted(pxa) != ['self_pixelscale', 'wavefront_pixelscale']: raise Refuse(f'Plane.multiply: _mul_pixelscale arguments {pxa}')
    # shape = wavefront.shape if self.shape == () else self.shape
    sh = assigns.get('shape')
    if not (isinstance(sh, ast.IfExp) and ast.unparse(sh.test) == 'self.shape == ()'): raise Refuse('Plane.multiply: shape rule changed')
    sha, shb = _attr_param(sh.body), _attr_param(sh.orelse)
    if {sha, shb} - {'self_shape', 'wavefront_shape'}: raise Refuse('Plane.multiply: shape rule sources')
    pars = []
    for k in FIELDS:
        if src[k] not in [p for p, _ in pars]: pars.append((src[k], FTYPE[k]))
    L = []
    L.append('/-- the metadata of a `Wavefront` as `Wavefront.empty(...)` receives them -/')
    L.append('structure WfHandover (M P S T : Type) where\n' + ''.join(f'  {k} : {FTYPE[k]}\n' for k in FIELDS))
    L.append(f'/-- translated from `plane.py:Plane.multiply` (line {calls[0].lineno}): the keywords of `lentil.Wavefront.empty(...)` -/')
    L.append('def planeMultiplyHandover {M P S T : Type} ' + ' '.join(f'({p} : {t})' for p, t in pars) + ' : WfHandover M P S T :=\n  { '
             + ', '.join(f'{k} := {src[k]}' for k in FIELDS) + ' }\n')
    L.append('/-- translated from `Plane.multiply`: `pixelscale = _mul_pixelscale(…, …)` — the argument order -/')
    L.append(f'def planeMultiplyPixelscaleArgs {{P : Type}} (self_pixelscale wavefront_pixelscale : P) : P × P := ({pxa[0]}, {pxa[1]})\n')
    L.append('/-- translated from `Plane.multiply`: `shape = <body> if self.shape == () else <orelse>` (`()` is `none`) -/')
    L.append('def planeMultiplyShape {S : Type} (self_shape wavefront_shape : Option S) : Option S :=\n'
             f'  match self_shape with\n  | none => {sha}\n  | some _ => {shb}\n')
    for cls, nm in (('Pupil', 'pupilMultiplyHandover'), ('Image', 'imageMultiplyHandover')):
        f = _find_method(mod, cls, 'multiply')
        sets = _override(f, cls)
        ps = []
        for a, p in sets:
            if (p, FTYPE[a]) not in ps: ps.append((p, FTYPE[a]))
        L.append(f'/-- translated from `plane.py:{cls}.multiply` (line {f.lineno}): the attributes set after `super().multiply` -/')
        body = 'w' if not sets else '{ w with ' + ', '.join(f'{a} := {p}' for a, p in sets) + ' }'
        L.append(f'def {nm} {{M P S T : Type}} (w : WfHandover M P S T) ' + ' '.join(f'({p} : {t})' for p, t in ps) + f' : WfHandover M P S T :=\n  {body}\n')
    # Wavefront.__init__ (reached through Wavefront.empty -> cls(...)): self.focal_length = focal_length if focal_length else np.inf
    wmod = ast.parse(open(os.path.join(repo, 'lentil/wavefront.py')).read())
    emp = _find_method(wmod, 'Wavefront', 'empty')
    cc = [n for n in ast.walk(emp) if isinstance(n, ast.Call) and ast.unparse(n.func) == 'cls']
    if len(cc) != 1 or 'focal_length' not in {k.arg: ast.unparse(k.value) for k in cc[0].keywords} \
            or {k.arg: ast.unparse(k.value) for k in cc[0].keywords}['focal_length'] != 'focal_length':
        raise Refuse('Wavefront.empty does not pass focal_length=focal_length to the constructor')
    ini = _find_method(wmod, 'Wavefront', '__init__')
    fa = [st for st in ast.walk(ini) if isinstance(st, ast.Assign) and ast.unparse(st.targets[0]) == 'self.focal_length']
    if len(fa) != 1: raise Refuse('Wavefront.__init__: assignment of self.focal_length not found')
    def fterm(e):
        if isinstance(e, ast.Name) and e.id == 'focal_length': return 'focal_length'
        if ast.unparse(e) == 'np.inf': return 'np_inf'
        if isinstance(e, ast.IfExp):
            if not (isinstance(e.test, ast.Name) and e.test.id == 'focal_length'): raise Refuse('Wavefront.__init__: focal_length test not understood')
            return f'(if truthy focal_length then {fterm(e.body)} else {fterm(e.orelse)})'
        raise Refuse(f'Wavefront.__init__: focal_length expression {ast.unparse(e)}')
    L.append(f'/-- translated from `wavefront.py:Wavefront.__init__` (line {fa[0].lineno}): `{ast.unparse(fa[0])}`; `truthy` is Python truthiness\n'
             '(`None` and `0` are falsy) -/')
    L.append('def wavefrontInitFocal {M : Type} (truthy : M → Bool) (np_inf : M) (focal_length : M) : M :=\n  ' + fterm(fa[0].value) + '\n')
    return '\n'.join(L), [f'Wavefront.empty keywords: {src}', f'_mul_pixelscale args: {pxa}', f'shape rule: {sha} if self.shape == () else {shb}']

from py2lean import Refuse
MODULES.append({'name': 'PlaneHandover', 'src': 'lentil/plane.py', 'generator': gen_handover, 'props': ['C07']})


# ---------------------------------------------------------------------------------------------------------------------
# The phase argument of Plane.multiply's phasor: `amp*np.exp(2*np.pi*1j*opd/wavefront.wavelength)`.
# Translated from the expression tree (not matched as text): the argument of np.exp must be  i * t  with a real t; the
# generated definition is t as an expression in (twoPi, opd, wavelength) — sign, factor order and which attribute
# divides are whatever the source says, so a sign flip or a different denominator CHANGES the definition (and breaks
# C07.planePh_eq_exp); anything that is not a product/quotient of 2, np.pi, 1j, opd and wavefront.<attr> is refused.
def gen_phase(repo):
    import os
    mod = ast.parse(open(os.path.join(repo, 'lentil/plane.py')).read())
    fn = _find_method(mod, 'Plane', 'multiply')
    exps = [n for n in ast.walk(fn) if isinstance(n, ast.Call) and ast.unparse(n.func) == 'np.exp']
    if len(exps) != 1 or len(exps[0].args) != 1: raise Refuse('Plane.multiply: expected exactly one np.exp(...) call')
    arg = exps[0].args[0]
    state = {'i': 0, 'two': 0, 'pi': 0, 'neg': 0}
    def tr(e):
        """Lean term of the REAL multiplier; the single factor 1j is dropped and counted, unary minus signs are collected"""
        if isinstance(e, ast.UnaryOp) and isinstance(e.op, ast.USub): state['neg'] += 1; return tr(e.operand)
        if isinstance(e, ast.BinOp) and isinstance(e.op, ast.Mult):
            a, b = tr(e.left), tr(e.right)
            if a is None: return b
            if b is None: return a
            return f'({a} * {b})'
        if isinstance(e, ast.BinOp) and isinstance(e.op, ast.Div):
            a, b = tr(e.left), tr(e.right)
            if a is None or b is None: raise Refuse('phase argument: 1j or 2*pi in a quotient position')
            return f'({a} / {b})'
        if isinstance(e, ast.Constant):
            if isinstance(e.value, complex) and e.value == 1j: state['i'] += 1; return None
            if isinstance(e.value, complex) and e.value == -1j: state['i'] += 1; state['neg'] += 1; return None
            if e.value == 2: state['two'] += 1; return '@two'
            raise Refuse(f'phase argument: constant {e.value!r}')
        src = ast.unparse(e)
        if src == 'np.pi': state['pi'] += 1; return '@pi'
        if src == 'opd': return 'opd'
        if isinstance(e, ast.Attribute) and ast.unparse(e.value) == 'wavefront': return f'wavefront_{e.attr}'
        raise Refuse(f'phase argument: term {src}')
    t = tr(arg)
    neg = state.pop('neg')
    if state != {'i': 1, 'two': 1, 'pi': 1}: raise Refuse(f'phase argument: expected one each of 1j, 2, np.pi, got {state}')
    if '(@two * @pi)' not in t: raise Refuse('phase argument: 2 and np.pi are not adjacent factors')
    t = t.replace('(@two * @pi)', 'twoPi')
    if neg % 2: t = f'(-{t})'
    params = ['twoPi', 'opd'] + sorted({w for w in __import__('re').findall(r'wavefront_\w+', t)})
    outer = exps[0]
    text = ('/-- translated from `plane.py:Plane.multiply` (line %d): the real multiplier `t` of `np.exp(1j * t)` in the phasor\n'
            '`%s` -/\n' % (outer.lineno, ast.unparse(outer)) +
            'def planePhaseArg {R : Type} [Mul R] [Div R] [Neg R] ' + ' '.join(f'({p} : R)' for p in params) + ' : R :=\n  ' + t + '\n')
    return text, [f'np.exp argument: {ast.unparse(arg)}', f'real multiplier: {t}']

MODULES.append({'name': 'PlanePhase', 'src': 'lentil/plane.py', 'generator': gen_phase, 'props': ['C07', 'C03']})


# ---------------------------------------------------------------------------------------------------------------------
# Wiring of the Wavefront views: which of field / intensity / insert starts from zeros(self.shape), iterates
# lentil.field.reduce(self.data) rather than self.data, asks lentil.field.insert for intensity=True, passes weight=weight.
def gen_views(repo):
    import os
    mod = ast.parse(open(os.path.join(repo, 'lentil/wavefront.py')).read())
    L = ['/-- how a view of `Wavefront` drives `lentil.field.insert` -/',
         'structure ViewWiring where\n  zeros : Bool\n  reduce : Bool\n  intensity : Bool\n  weighted : Bool\nderiving DecidableEq, Repr\n']
    notes = []
    for meth in ('field', 'intensity', 'insert'):
        fn = _find_method(mod, 'Wavefront', meth)
        st = [s for s in fn.body if not (isinstance(s, ast.Expr) and isinstance(s.value, ast.Constant))]
        zeros = False
        if isinstance(st[0], ast.Assign) and ast.unparse(st[0].targets[0]) == 'out':
            v = st[0].value
            if not (isinstance(v, ast.Call) and ast.unparse(v.func) == 'np.zeros' and ast.unparse(v.args[0]) == 'self.shape'):
                raise Refuse(f'Wavefront.{meth}: initialisation of out not understood: {ast.unparse(st[0])}')
            zeros = True; st = st[1:]
        elif 'out' not in [a.arg for a in fn.args.args]: raise Refuse(f'Wavefront.{meth}: no out array')
        if len(st) != 2 or not isinstance(st[0], ast.For) or ast.unparse(st[1]) != 'return out': raise Refuse(f'Wavefront.{meth}: body shape changed')
        loop = st[0]
        it = ast.unparse(loop.iter)
        if it == 'self.data': red = False
        elif it == 'lentil.field.reduce(self.data)': red = True
        else: raise Refuse(f'Wavefront.{meth}: iterates {it}')
        if len(loop.body) != 1 or not isinstance(loop.body[0], ast.Assign) or ast.unparse(loop.body[0].targets[0]) != 'out':
            raise Refuse(f'Wavefront.{meth}: loop body changed')
        call = loop.body[0].value
        if not (isinstance(call, ast.Call) and ast.unparse(call.func) == 'lentil.field.insert' and [ast.unparse(a) for a in call.args] == [ast.unparse(loop.target), 'out']):
            raise Refuse(f'Wavefront.{meth}: not out = lentil.field.insert(field, out, ...)')
        kw = {k.arg: ast.unparse(k.value) for k in call.keywords}
        if set(kw) - {'intensity', 'weight'}: raise Refuse(f'Wavefront.{meth}: insert keywords {kw}')
        inten = {'True': True, 'False': False, None: False}.get(kw.get('intensity'), 'bad')
        if inten == 'bad': raise Refuse(f'Wavefront.{meth}: intensity={kw["intensity"]}')
        if kw.get('weight') not in (None, 'weight'): raise Refuse(f'Wavefront.{meth}: weight={kw["weight"]}')
        w = 'weight' in kw
        b = lambda x: 'true' if x else 'false'
        L.append(f'/-- translated from `wavefront.py:Wavefront.{meth}` (line {fn.lineno}) -/')
        L.append(f'def {meth}Wiring : ViewWiring := {{ zeros := {b(zeros)}, reduce := {b(red)}, intensity := {b(inten)}, weighted := {b(w)} }}\n')
        notes.append(f'{meth}: zeros={zeros} reduce={red} intensity={inten} weighted={w}')
    return '\n'.join(L), notes

MODULES.append({'name': 'WfViews', 'src': 'lentil/wavefront.py', 'generator': gen_views, 'props': ['C07', 'C03']})


# ---------------------------------------------------------------------------------------------------------------------
# The loop body of Plane.multiply (wave 12): which array the three attributes are read from under which test, how the
# phasor data is composed, which arguments slice_offset receives and which products are kept.
#     mask = self.mask if self.mask.ndim < 3 else self.mask[n]
#     amp = self.amplitude * mask[s] if self.amplitude.size == 1 else self.amplitude[s] * mask[s]
#     opd = self.opd if self.opd.size == 1 else self.opd[s]
#     phasor = Field(data=amp*np.exp(...), pixelscale=…, offset=lentil.helper.slice_offset(s, self.shape), tilt=…)
#     res = field * phasor
#     if res.size > 0: out.data.append(field * phasor)
# Translated from the expression trees as the value AT ONE SAMPLE of the slice `s` (NumPy's elementwise product and the
# broadcast of a one-element array are the trusted reading): `self.x` -> the whole attribute (used as a scalar),
# `self.x[s]` / `mask[s]` -> its entry at the sample, `a * b` -> product, `a if self.x.size == 1 else b` -> `if`.
# Anything else is refused. Dropping `* mask[s]`, swapping the branches, slicing the wrong attribute or changing the
# size test CHANGES the generated definitions and breaks C07.loop_body_is_segPhasor / C03.segment_slices_are_boundary_slices.
def gen_loop(repo):
    import os
    mod = ast.parse(open(os.path.join(repo, 'lentil/plane.py')).read())
    fn = _find_method(mod, 'Plane', 'multiply')
    outer = [s for s in fn.body if isinstance(s, ast.For)]
    if len(outer) != 1 or ast.unparse(outer[0].target) != 'field' or ast.unparse(outer[0].iter) != 'data':
        raise Refuse('Plane.multiply: outer loop `for field in data` not found')
    if len(outer[0].body) != 1 or not isinstance(outer[0].body[0], ast.For): raise Refuse('Plane.multiply: outer loop body changed')
    inner = outer[0].body[0]
    if ast.unparse(inner.target) != '(n, s)' or ast.unparse(inner.iter) != 'enumerate(self._slice)':
        raise Refuse(f'Plane.multiply: inner loop is `for {ast.unparse(inner.target)} in {ast.unparse(inner.iter)}`')
    st = [s for s in inner.body if not (isinstance(s, ast.Expr) and isinstance(s.value, ast.Constant))]
    if len(st) != 6: raise Refuse(f'Plane.multiply: loop body has {len(st)} statements, expected 6')
    def assign(s, name):
        if not (isinstance(s, ast.Assign) and len(s.targets) == 1 and ast.unparse(s.targets[0]) == name):
            raise Refuse(f'Plane.multiply loop: expected an assignment to {name}, got `{ast.unparse(s)}`')
        return s.value
    params = []
    def par(p):
        if p not in params: params.append(p)
        return p
    def size_test(t):
        # self.<x>.size == 1
        if (isinstance(t, ast.Compare) and len(t.ops) == 1 and isinstance(t.ops[0], ast.Eq) and isinstance(t.left, ast.Attribute)
                and t.left.attr == 'size' and isinstance(t.left.value, ast.Attribute) and ast.unparse(t.left.value.value) == 'self'
                and isinstance(t.comparators[0], ast.Constant) and type(t.comparators[0].value) is int):
            return f'decide ({par(t.left.value.attr + "_size")} = ({t.comparators[0].value} : Int))'
        raise Refuse(f'Plane.multiply loop: test not understood: {ast.unparse(t)}')
    def ev(e):
        if isinstance(e, ast.IfExp): return f'(if {size_test(e.test)} then {ev(e.body)} else {ev(e.orelse)})'
        if isinstance(e, ast.BinOp) and isinstance(e.op, ast.Mult): return f'({ev(e.left)} * {ev(e.right)})'
        if isinstance(e, ast.Attribute) and ast.unparse(e.value) == 'self' and e.attr in ('amplitude', 'opd'): return par(e.attr)
        if isinstance(e, ast.Subscript) and ast.unparse(e.slice) == 's':
            b = e.value
            if isinstance(b, ast.Attribute) and ast.unparse(b.value) == 'self' and b.attr in ('amplitude', 'opd'): return par(b.attr + '_s')
            if isinstance(b, ast.Name) and b.id == 'mask': return par('mask_s')
        raise Refuse(f'Plane.multiply loop: expression not understood: {ast.unparse(e)}')
    L, notes = [], []
    # 1. mask = self.mask if self.mask.ndim < 3 else self.mask[n]
    m = assign(st[0], 'mask')
    if not (isinstance(m, ast.IfExp) and isinstance(m.test, ast.Compare) and len(m.test.ops) == 1 and ast.unparse(m.test.left) == 'self.mask.ndim'
            and isinstance(m.test.comparators[0], ast.Constant) and type(m.test.comparators[0].value) is int):
        raise Refuse(f'Plane.multiply loop: mask selection not understood: {ast.unparse(m)}')
    op = {ast.Lt: '<', ast.LtE: '≤', ast.Gt: '>', ast.GtE: '≥', ast.Eq: '=', ast.NotEq: '≠'}.get(type(m.test.ops[0]))
    if op is None: raise Refuse('Plane.multiply loop: mask test operator')
    sel = {'self.mask': 'false', 'self.mask[n]': 'true'}
    if ast.unparse(m.body) not in sel or ast.unparse(m.orelse) not in sel: raise Refuse(f'Plane.multiply loop: mask selection branches: {ast.unparse(m)}')
    L.append(f'/-- translated from `plane.py:Plane.multiply` (line {st[0].lineno}): `{ast.unparse(st[0])}` — `true`: the loop reads layer `n`\n(`self.mask[n]`), `false`: the whole mask -/')
    L.append(f'def planeLoopMaskLayer (mask_ndim : Int) : Bool :=\n  if decide (mask_ndim {op} ({m.test.comparators[0].value} : Int)) then {sel[ast.unparse(m.body)]} else {sel[ast.unparse(m.orelse)]}\n')
    notes.append(f'mask: {ast.unparse(m)}')
    # 2./3. amp, opd
    for s, name, ty, cls in ((st[1], 'amp', 'K', '[Mul K] '), (st[2], 'opd', 'R', '')):
        params.clear()
        t = ev(assign(s, name))
        ps = sorted(params, key=lambda p: (not p.endswith('_size'), p))
        L.append(f'/-- translated from `plane.py:Plane.multiply` (line {s.lineno}): `{ast.unparse(s)}` at one sample of the slice `s` -/')
        L.append(f'def planeLoop{name.capitalize()} {{{ty} : Type}} {cls}' + ' '.join(f'({p} : {"Int" if p.endswith("_size") else ty})' for p in ps) + f' : {ty} :=\n  {t}\n')
        notes.append(f'{name}: {t}')
    # 4. phasor = Field(data=amp*np.exp(...), pixelscale=self.pixelscale, offset=lentil.helper.slice_offset(s, self.shape), tilt=...)
    ph = assign(st[3], 'phasor')
    if not (isinstance(ph, ast.Call) and ast.unparse(ph.func) == 'Field' and not ph.args): raise Refuse('Plane.multiply loop: phasor is not Field(keywords)')
    kw = {k.arg: k.value for k in ph.keywords}
    if sorted(kw) != ['data', 'offset', 'pixelscale', 'tilt']: raise Refuse(f'Plane.multiply loop: Field keywords {sorted(kw)}')
    def dv(e):
        if isinstance(e, ast.BinOp) and isinstance(e.op, ast.Mult): return f'({dv(e.left)} * {dv(e.right)})'
        if isinstance(e, ast.Name) and e.id == 'amp': return 'amp'
        if isinstance(e, ast.Call) and ast.unparse(e.func) == 'np.exp': return 'np_exp'
        raise Refuse(f'Plane.multiply loop: phasor data not understood: {ast.unparse(e)}')
    d = dv(kw['data'])
    if d.count('amp') != 1 or d.count('np_exp') != 1: raise Refuse(f'Plane.multiply loop: phasor data {d}')
    L.append(f'/-- translated from `plane.py:Plane.multiply` (line {st[3].lineno}): `data={ast.unparse(kw["data"])}` at one sample; `np_exp` is the value of\nthe `np.exp(...)` factor (its argument is `Gen.planePhaseArg`) -/')
    L.append(f'def planeLoopData {{K : Type}} [Mul K] (amp np_exp : K) : K :=\n  {d}\n')
    off = kw['offset']
    if not (isinstance(off, ast.Call) and ast.unparse(off.func) == 'lentil.helper.slice_offset' and not off.keywords and len(off.args) == 2):
        raise Refuse(f'Plane.multiply loop: offset is not lentil.helper.slice_offset(a, b): {ast.unparse(off)}')
    oa = [ast.unparse(a) for a in off.args]
    nm = {'s': ('s_0_start', 's_0_stop', 's_1_start', 's_1_stop'), 'self.shape': ('self_shape_0', 'self_shape_1')}
    if sorted(oa) != ['s', 'self.shape'] or oa[0] != 's': raise Refuse(f'Plane.multiply loop: slice_offset arguments {oa}')
    L.append(f'/-- translated from `plane.py:Plane.multiply` (line {off.lineno}): `offset={ast.unparse(off)}` over the generated `Gen.sliceOffset` -/')
    L.append('def planeLoopOffset (s_0_start s_0_stop s_1_start s_1_stop self_shape_0 self_shape_1 : Int) : Int × Int :=\n  Gen.sliceOffset '
             + ' '.join(' '.join(nm[a]) for a in oa) + '\n')
    if ast.unparse(kw['pixelscale']) != 'self.pixelscale': raise Refuse('Plane.multiply loop: phasor pixelscale')
    # 5./6. res = field * phasor ; if res.size > 0: out.data.append(field * phasor)
    if ast.unparse(assign(st[4], 'res')) != 'field * phasor': raise Refuse(f'Plane.multiply loop: `{ast.unparse(st[4])}`')
    g = st[5]
    if not (isinstance(g, ast.If) and not g.orelse and len(g.body) == 1 and ast.unparse(g.body[0]) in ('out.data.append(field * phasor)', 'out.data.append(res)')):
        raise Refuse(f'Plane.multiply loop: append statement not understood: {ast.unparse(g)}')
    t = g.test
    if not (isinstance(t, ast.Compare) and len(t.ops) == 1 and ast.unparse(t.left) == 'res.size' and isinstance(t.comparators[0], ast.Constant)
            and type(t.comparators[0].value) is int): raise Refuse(f'Plane.multiply loop: guard {ast.unparse(t)}')
    gop = {ast.Lt: '<', ast.LtE: '≤', ast.Gt: '>', ast.GtE: '≥', ast.Eq: '=', ast.NotEq: '≠'}.get(type(t.ops[0]))
    if gop is None: raise Refuse('Plane.multiply loop: guard operator')
    L.append(f'/-- translated from `plane.py:Plane.multiply` (line {g.lineno}): `if {ast.unparse(t)}:` — which products `field * phasor` are appended -/')
    L.append(f'def planeLoopKeep (res_size : Int) : Bool :=\n  decide (res_size {gop} ({t.comparators[0].value} : Int))\n')
    notes.append(f'data: {d}; offset args: {oa}; keep: res.size {gop} {t.comparators[0].value}')
    return '\n'.join(L), notes

MODULES.append({'name': 'PlaneLoop', 'src': 'lentil/plane.py', 'generator': gen_loop, 'imports': ['LentilVerif.Gen.Helper'], 'props': ['C07', 'C03']})


# ---------------------------------------------------------------------------------------------------------------------
# Plane.shape / Plane.size / _plane_slice (wave 12): the dispatch on the number of mask dimensions that decides the
# plane's shape, the number of segments and which arrays boundary_slice is applied to. `mask.shape` is a list of ints,
# `mask.ndim` its length. Accepted statement shapes only (if/else with two returns; the if/elif chain of _plane_slice);
# tests are comparisons of `self.mask.ndim` / `mask.ndim` / `self.size` with integer constants or `in (tuple of ints)`.
_CMP = {ast.Lt: '<', ast.LtE: '≤', ast.Gt: '>', ast.GtE: '≥', ast.Eq: '=', ast.NotEq: '≠'}

def _geom_int(e, recv):
    """integer-valued expression over the mask's shape"""
    src = ast.unparse(e)
    if src == f'{recv}mask.ndim' or (recv == '' and src == 'mask.ndim'): return '(mask_shape.length : Int)'
    if recv and src == 'self.size': return '(planeSize mask_shape)'
    if isinstance(e, ast.Constant) and type(e.value) is int: return f'({e.value} : Int)'
    if isinstance(e, ast.Subscript) and ast.unparse(e.value) == f'{recv}mask.shape' and isinstance(e.slice, ast.Constant) and type(e.slice.value) is int and e.slice.value >= 0:
        return f'(mask_shape.getD {e.slice.value} 0)'
    raise Refuse(f'plane geometry: integer expression not understood: {src}')

def _geom_test(t, recv):
    if isinstance(t, ast.Compare) and len(t.ops) == 1:
        if type(t.ops[0]) in _CMP: return f'decide ({_geom_int(t.left, recv)} {_CMP[type(t.ops[0])]} {_geom_int(t.comparators[0], recv)})'
        if isinstance(t.ops[0], ast.In) and isinstance(t.comparators[0], ast.Tuple) and t.comparators[0].elts:
            x = _geom_int(t.left, recv)
            return '(' + ' || '.join(f'decide ({x} = {_geom_int(c, recv)})' for c in t.comparators[0].elts) + ')'
    raise Refuse(f'plane geometry: test not understood: {ast.unparse(t)}')

def _geom_two_returns(fn, what):
    st = [s for s in fn.body if not (isinstance(s, ast.Expr) and isinstance(s.value, ast.Constant))]
    if not (len(st) == 1 and isinstance(st[0], ast.If) and len(st[0].body) == 1 and len(st[0].orelse) == 1
            and isinstance(st[0].body[0], ast.Return) and isinstance(st[0].orelse[0], ast.Return)):
        raise Refuse(f'{what}: body is not `if t: return a else: return b`')
    return st[0].test, st[0].body[0].value, st[0].orelse[0].value

def gen_geom(repo):
    import os
    mod = ast.parse(open(os.path.join(repo, 'lentil/plane.py')).read())
    def prop(name):
        for node in mod.body:
            if isinstance(node, ast.ClassDef) and node.name == 'Plane':
                for f in node.body:
                    if isinstance(f, ast.FunctionDef) and f.name == name and any(ast.unparse(d) == 'property' for d in f.decorator_list): return f
        raise Refuse(f'Plane.{name} property not found')
    L, notes = [], []
    # Plane.size
    f = prop('size')
    t, a, b = _geom_two_returns(f, 'Plane.size')
    L.append(f'/-- translated from `plane.py:Plane.size` (line {f.lineno}): `{ast.unparse(t)}` ? `{ast.unparse(a)}` : `{ast.unparse(b)}`; `mask_shape` is `mask.shape`,\nits length `mask.ndim` -/')
    # the test of Plane.size may not mention self.size
    if 'self.size' in ast.unparse(t): raise Refuse('Plane.size refers to itself')
    L.append(f'def planeSize (mask_shape : List Int) : Int :=\n  if {_geom_test(t, "self.")} then {_geom_int(a, "self.")} else {_geom_int(b, "self.")}\n')
    notes.append(f'size: {ast.unparse(t)} ? {ast.unparse(a)} : {ast.unparse(b)}')
    # Plane.shape
    f = prop('shape')
    t, a, b = _geom_two_returns(f, 'Plane.shape')
    def shp(e):
        if ast.unparse(e) == 'self.mask.shape': return 'mask_shape'
        if isinstance(e, ast.Tuple): return '[' + ', '.join(_geom_int(x, 'self.') for x in e.elts) + ']'
        raise Refuse(f'Plane.shape: returned value not understood: {ast.unparse(e)}')
    L.append(f'/-- translated from `plane.py:Plane.shape` (line {f.lineno}): `{ast.unparse(t)}` ? `{ast.unparse(a)}` : `{ast.unparse(b)}` -/')
    L.append(f'def planeShape (mask_shape : List Int) : List Int :=\n  if {_geom_test(t, "self.")} then {shp(a)} else {shp(b)}\n')
    notes.append(f'shape: {ast.unparse(t)} ? {ast.unparse(a)} : {ast.unparse(b)}')
    # _plane_slice
    fn = [n for n in mod.body if isinstance(n, ast.FunctionDef) and n.name == '_plane_slice']
    if len(fn) != 1 or [a.arg for a in fn[0].args.args] != ['mask']: raise Refuse('_plane_slice(mask) not found')
    st = [s for s in fn[0].body if not (isinstance(s, ast.Expr) and isinstance(s.value, ast.Constant))]
    if not (len(st) == 2 and isinstance(st[0], ast.If) and ast.unparse(st[1]) == 'return s'): raise Refuse('_plane_slice: body shape changed')
    KIND = {'[Ellipsis]': 'ellipsis', '[np.s_[...]]': 'ellipsis', '[lentil.helper.boundary_slice(mask)]': 'whole',
            '[lentil.helper.boundary_slice(m) for m in mask]': 'perLayer'}
    def branch(body):
        if len(body) == 1 and isinstance(body[0], ast.Raise): return '.error "' + ast.unparse(body[0].exc.func if isinstance(body[0].exc, ast.Call) else body[0].exc) + '"'
        if len(body) == 1 and isinstance(body[0], ast.Assign) and ast.unparse(body[0].targets[0]) == 's' and ast.unparse(body[0].value) in KIND:
            return '.ok .' + KIND[ast.unparse(body[0].value)]
        raise Refuse(f'_plane_slice: branch not understood: {ast.unparse(body[0])}')
    node = st[0]
    if ast.unparse(node.test) != 'mask is None' or branch(node.body) != '.ok .ellipsis': raise Refuse('_plane_slice: the `mask is None` branch changed')
    chain, cur = [], node.orelse
    while len(cur) == 1 and isinstance(cur[0], ast.If):
        chain.append((_geom_test(cur[0].test, ''), branch(cur[0].body))); cur = cur[0].orelse
    last = branch(cur)
    L.append('/-- what `_plane_slice` puts into `Plane._slice` -/')
    L.append('inductive PlaneSliceKind where\n  /-- `[Ellipsis]`: one slice, the whole (0-d / 1-d) attribute -/\n  | ellipsis\n  /-- `[boundary_slice(mask)]`: one slice, of the 2-D mask -/\n  | whole\n'
             '  /-- `[boundary_slice(m) for m in mask]`: one slice per layer -/\n  | perLayer\nderiving DecidableEq, Repr\n')
    L.append(f'/-- translated from `plane.py:_plane_slice` (line {fn[0].lineno}) for a mask that is an array (`Plane.__init__` never passes `None`) -/')
    body = ''.join(f'  if {t} then {b} else\n' for t, b in chain) + f'  {last}'
    L.append('def planeSliceKind (mask_shape : List Int) : Except String PlaneSliceKind :=\n' + body + '\n')
    notes.append('_plane_slice: ' + '; '.join(f'{t} -> {b}' for t, b in chain) + f'; else {last}')
    return '\n'.join(L), notes

MODULES.append({'name': 'PlaneGeom', 'src': 'lentil/plane.py', 'generator': gen_geom, 'props': ['C07', 'C03']})
