"""C07: `lentil.plane._mul_pixelscale(a_pixelscale, b_pixelscale)` — each argument is None or a pair.

The translator has no optional-pair parameter kind; the function is translated four times, once per None-pattern of
its arguments (kind 'none' folds the `is None` tests statically), and `Model/PlaneMeta.lean` dispatches on the
`Option`s. The value `None` of the first variant is rendered as `()`. Pixel scales are floats in lentil and `Int`
here: the function only compares them for equality and passes them on, which is the same over any type with
decidable equality (listed in the trusted base of C07)."""
import ast
from py2lean import V, NoneV

def _ret_none(tr, st, env):
    # `return out` where out is statically None  ->  unit
    if isinstance(st.value, ast.Name) and isinstance(env.get(st.value.id), NoneV): return V([])
    return None

def _sig(a, b):
    return {'py_name': '_mul_pixelscale', 'params': [('a_pixelscale', a), ('b_pixelscale', b)], 'ret_override': _ret_none,
            'lean_name': 'mulPixelscale' + ('N' if a == 'none' else 'P') + ('N' if b == 'none' else 'P')}

PLANEPX = {
    # the NN variant returns None, which the translator self-check (tools/transcheck.py) cannot flatten: the dummy
    # `call_as` entry marks it as not self-checkable (it is the constant `Except.ok ()`); the other three are self-checked
    '_mul_pixelscale#NN': dict(_sig('none', 'none'), call_as={'__not_selfchecked__()': 'a_pixelscale'}),
    '_mul_pixelscale#NP': _sig('none', 'pair'),
    '_mul_pixelscale#PN': _sig('pair', 'none'),
    '_mul_pixelscale#PP': _sig('pair', 'pair'),
}

MODULES = [
    {'name': 'PlanePx', 'src': 'lentil/plane.py', 'sigs': PLANEPX, 'props': ['C07']},
]


# ---------------------------------------------------------------------------------------------------------------------
# Metadata hand-over of Plane.multiply / Pupil.multiply / Image.multiply: which attribute of which operand goes where.
# Not integer code, so not py2lean's expression subset: a dedicated AST reader that accepts exactly the statement shapes
# below and REFUSES anything else (a refusal breaks the tie of C07).
def _find_method(mod, cls, name):
    for node in mod.body:
        if isinstance(node, ast.ClassDef) and node.name == cls:
            for f in node.body:
                if isinstance(f, ast.FunctionDef) and f.name == name: return f
    raise Refuse(f'{cls}.{name} not found')

def _attr_param(e, allowed=('wavefront', 'self')):
    """`wavefront.focal_length` -> 'wavefront_focal_length'; a bare local name -> itself"""
    if isinstance(e, ast.Attribute) and isinstance(e.value, ast.Name) and e.value.id in allowed: return f'{e.value.id}_{e.attr}'
    if isinstance(e, ast.Name): return e.id
    raise Refuse(f'hand-over source not understood: {ast.unparse(e)}')

FIELDS = ['wavelength', 'pixelscale', 'focal_length', 'shape', 'ptype']
FTYPE = {'wavelength': 'M', 'focal_length': 'M', 'pixelscale': 'P', 'shape': 'S', 'ptype': 'T'}

def _override(fn, cls):
    """body of a `multiply` override: wavefront = super().multiply(wavefront); wavefront.<a> = <src> ...; return wavefront"""
    st = [s for s in fn.body if not (isinstance(s, ast.Expr) and isinstance(s.value, ast.Constant))]
    if not st or ast.unparse(st[0]) != 'wavefront = super().multiply(wavefront)': raise Refuse(f'{cls}.multiply: first statement changed')
    if ast.unparse(st[-1]) != 'return wavefront': raise Refuse(f'{cls}.multiply: does not return the wavefront')
    sets = []
    for s in st[1:-1]:
        if not (isinstance(s, ast.Assign) and len(s.targets) == 1 and isinstance(s.targets[0], ast.Attribute)
                and ast.unparse(s.targets[0].value) == 'wavefront' and s.targets[0].attr in FIELDS):
            raise Refuse(f'{cls}.multiply: statement not understood: {ast.unparse(s)}')
        src = s.value
        if isinstance(src, ast.Attribute) and ast.unparse(src.value) == 'lentil': par = f'lentil_{src.attr}'
        else: par = _attr_param(src, ('self',))
        sets.append((s.targets[0].attr, par))
    return sets

def gen_handover(repo):
    import os
    mod = ast.parse(open(os.path.join(repo, 'lentil/plane.py')).read())
    fn = _find_method(mod, 'Plane', 'multiply')
    calls = [n for n in ast.walk(fn) if isinstance(n, ast.Call) and ast.unparse(n.func) == 'lentil.Wavefront.empty']
    if len(calls) != 1 or calls[0].args: raise Refuse('Plane.multiply: lentil.Wavefront.empty(...) call not found / positional arguments')
    kw = {k.arg: k.value for k in calls[0].keywords}
    if sorted(kw) != sorted(FIELDS): raise Refuse(f'Plane.multiply: Wavefront.empty keywords {sorted(kw)} != {sorted(FIELDS)}')
    src = {k: _attr_param(kw[k], ('wavefront',)) for k in FIELDS}
    assigns = {ast.unparse(s.targets[0]): s.value for s in ast.walk(fn) if isinstance(s, ast.Assign) and len(s.targets) == 1}
    # pixelscale = _mul_pixelscale(<a>, <b>)
    px = assigns.get('pixelscale')
    if not (isinstance(px, ast.Call) and ast.unparse(px.func) == '_mul_pixelscale' and len(px.args) == 2 and not px.keywords):
        raise Refuse('Plane.multiply: pixelscale is not _mul_pixelscale(a, b)')
    pxa = [_attr_param(a) for a in px.args]
    if sorted(pxa) != ['self_pixelscale', 'wavefront_pixelscale']: raise Refuse(f'Plane.multiply: _mul_pixelscale arguments {pxa}')
    # shape = wavefront.shape if self.shape == () else self.shape
    sh = assigns.get('shape')
    if not (isinstance(sh, ast.IfExp) and ast.unparse(sh.test) == 'self.shape == ()'): raise Refuse('Plane.multiply: shape rule changed')
    sha, shb = _attr_param(sh.body), _attr_param(sh.orelse)
    if {sha, shb} - {'self_shape', 'wavefront_shape'}: raise Refuse('Plane.multiply: shape rule sources')
    pars = []
    for k in FIELDS:
        if src[k] not in [p for p, _ in pars]: pars.append((src[k], FTYPE[k]))
    L = []
    L.append('/-- the metadata of a `Wavefront` as `Wavefront.empty(...)` receives them -/')
    L.append('structure WfHandover (M P S T : Type) where\n' + ''.join(f'  {k} : {FTYPE[k]}\n' for k in FIELDS))
    L.append(f'/-- translated from `plane.py:Plane.multiply` (line {calls[0].lineno}): the keywords of `lentil.Wavefront.empty(...)` -/')
    L.append('def planeMultiplyHandover {M P S T : Type} ' + ' '.join(f'({p} : {t})' for p, t in pars) + ' : WfHandover M P S T :=\n  { '
             + ', '.join(f'{k} := {src[k]}' for k in FIELDS) + ' }\n')
    L.append('/-- translated from `Plane.multiply`: `pixelscale = _mul_pixelscale(…, …)` — the argument order -/')
    L.append(f'def planeMultiplyPixelscaleArgs {{P : Type}} (self_pixelscale wavefront_pixelscale : P) : P × P := ({pxa[0]}, {pxa[1]})\n')
    L.append('/-- translated from `Plane.multiply`: `shape = <body> if self.shape == () else <orelse>` (`()` is `none`) -/')
    L.append('def planeMultiplyShape {S : Type} (self_shape wavefront_shape : Option S) : Option S :=\n'
             f'  match self_shape with\n  | none => {sha}\n  | some _ => {shb}\n')
    for cls, nm in (('Pupil', 'pupilMultiplyHandover'), ('Image', 'imageMultiplyHandover')):
        f = _find_method(mod, cls, 'multiply')
        sets = _override(f, cls)
        ps = []
        for a, p in sets:
            if (p, FTYPE[a]) not in ps: ps.append((p, FTYPE[a]))
        L.append(f'/-- translated from `plane.py:{cls}.multiply` (line {f.lineno}): the attributes set after `super().multiply` -/')
        body = 'w' if not sets else '{ w with ' + ', '.join(f'{a} := {p}' for a, p in sets) + ' }'
        L.append(f'def {nm} {{M P S T : Type}} (w : WfHandover M P S T) ' + ' '.join(f'({p} : {t})' for p, t in ps) + f' : WfHandover M P S T :=\n  {body}\n')
    # Wavefront.__init__ (reached through Wavefront.empty -> cls(...)): self.focal_length = focal_length if focal_length else np.inf
    wmod = ast.parse(open(os.path.join(repo, 'lentil/wavefront.py')).read())
    emp = _find_method(wmod, 'Wavefront', 'empty')
    cc = [n for n in ast.walk(emp) if isinstance(n, ast.Call) and ast.unparse(n.func) == 'cls']
    if len(cc) != 1 or 'focal_length' not in {k.arg: ast.unparse(k.value) for k in cc[0].keywords} \
            or {k.arg: ast.unparse(k.value) for k in cc[0].keywords}['focal_length'] != 'focal_length':
        raise Refuse('Wavefront.empty does not pass focal_length=focal_length to the constructor')
    ini = _find_method(wmod, 'Wavefront', '__init__')
    fa = [st for st in ast.walk(ini) if isinstance(st, ast.Assign) and ast.unparse(st.targets[0]) == 'self.focal_length']
    if len(fa) != 1: raise Refuse('Wavefront.__init__: assignment of self.focal_length not found')
    def fterm(e):
        if isinstance(e, ast.Name) and e.id == 'focal_length': return 'focal_length'
        if ast.unparse(e) == 'np.inf': return 'np_inf'
        if isinstance(e, ast.IfExp):
            if not (isinstance(e.test, ast.Name) and e.test.id == 'focal_length'): raise Refuse('Wavefront.__init__: focal_length test not understood')
            return f'(if truthy focal_length then {fterm(e.body)} else {fterm(e.orelse)})'
        raise Refuse(f'Wavefront.__init__: focal_length expression {ast.unparse(e)}')
    L.append(f'/-- translated from `wavefront.py:Wavefront.__init__` (line {fa[0].lineno}): `{ast.unparse(fa[0])}`; `truthy` is Python truthiness\n'
             '(`None` and `0` are falsy) -/')
    L.append('def wavefrontInitFocal {M : Type} (truthy : M → Bool) (np_inf : M) (focal_length : M) : M :=\n  ' + fterm(fa[0].value) + '\n')
    return '\n'.join(L), [f'Wavefront.empty keywords: {src}', f'_mul_pixelscale args: {pxa}', f'shape rule: {sha} if self.shape == () else {shb}']

from py2lean import Refuse
MODULES.append({'name': 'PlaneHandover', 'src': 'lentil/plane.py', 'generator': gen_handover, 'props': ['C07']})


# ---------------------------------------------------------------------------------------------------------------------
# The phase argument of Plane.multiply's phasor: `amp*np.exp(2*np.pi*1j*opd/wavefront.wavelength)`.
# Translated from the expression tree (not matched as text): the argument of np.exp must be  i * t  with a real t; the
# generated definition is t as an expression in (twoPi, opd, wavelength) — sign, factor order and which attribute
# divides are whatever the source says, so a sign flip or a different denominator CHANGES the definition (and breaks
# C07.planePh_eq_exp); anything that is not a product/quotient of 2, np.pi, 1j, opd and wavefront.<attr> is refused.
def gen_phase(repo):
    import os
    mod = ast.parse(open(os.path.join(repo, 'lentil/plane.py')).read())
    fn = _find_method(mod, 'Plane', 'multiply')
    exps = [n for n in ast.walk(fn) if isinstance(n, ast.Call) and ast.unparse(n.func) == 'np.exp']
    if len(exps) != 1 or len(exps[0].args) != 1: raise Refuse('Plane.multiply: expected exactly one np.exp(...) call')
    arg = exps[0].args[0]
    state = {'i': 0, 'two': 0, 'pi': 0, 'neg': 0}
    def tr(e):
        """Lean term of the REAL multiplier; the single factor 1j is dropped and counted, unary minus signs are collected"""
        if isinstance(e, ast.UnaryOp) and isinstance(e.op, ast.USub): state['neg'] += 1; return tr(e.operand)
        if isinstance(e, ast.BinOp) and isinstance(e.op, ast.Mult):
            a, b = tr(e.left), tr(e.right)
            if a is None: return b
            if b is None: return a
            return f'({a} * {b})'
        if isinstance(e, ast.BinOp) and isinstance(e.op, ast.Div):
            a, b = tr(e.left), tr(e.right)
            if a is None or b is None: raise Refuse('phase argument: 1j or 2*pi in a quotient position')
            return f'({a} / {b})'
        if isinstance(e, ast.Constant):
            if isinstance(e.value, complex) and e.value == 1j: state['i'] += 1; return None
            if isinstance(e.value, complex) and e.value == -1j: state['i'] += 1; state['neg'] += 1; return None
            if e.value == 2: state['two'] += 1; return '@two'
            raise Refuse(f'phase argument: constant {e.value!r}')
        src = ast.unparse(e)
        if src == 'np.pi': state['pi'] += 1; return '@pi'
        if src == 'opd': return 'opd'
        if isinstance(e, ast.Attribute) and ast.unparse(e.value) == 'wavefront': return f'wavefront_{e.attr}'
        raise Refuse(f'phase argument: term {src}')
    t = tr(arg)
    neg = state.pop('neg')
    if state != {'i': 1, 'two': 1, 'pi': 1}: raise Refuse(f'phase argument: expected one each of 1j, 2, np.pi, got {state}')
    if '(@two * @pi)' not in t: raise Refuse('phase argument: 2 and np.pi are not adjacent factors')
    t = t.replace('(@two * @pi)', 'twoPi')
    if neg % 2: t = f'(-{t})'
    params = ['twoPi', 'opd'] + sorted({w for w in __import__('re').findall(r'wavefront_\w+', t)})
    outer = exps[0]
    text = ('/-- translated from `plane.py:Plane.multiply` (line %d): the real multiplier `t` of `np.exp(1j * t)` in the phasor\n'
            '`%s` -/\n' % (outer.lineno, ast.unparse(outer)) +
            'def planePhaseArg {R : Type} [Mul R] [Div R] [Neg R] ' + ' '.join(f'({p} : R)' for p in params) + ' : R :=\n  ' + t + '\n')
    return text, [f'np.exp argument: {ast.unparse(arg)}', f'real multiplier: {t}']

MODULES.append({'name': 'PlanePhase', 'src': 'lentil/plane.py', 'generator': gen_phase, 'props': ['C07', 'C03']})


# ---------------------------------------------------------------------------------------------------------------------
# Wiring of the Wavefront views: which of field / intensity / insert starts from zeros(self.shape), iterates
# lentil.field.reduce(self.data) rather than self.data, asks lentil.field.insert for intensity=True, passes weight=weight.
def gen_views(repo):
    import os
    mod = ast.parse(open(os.path.join(repo, 'lentil/wavefront.py')).read())
    L = ['/-- how a view of `Wavefront` drives `lentil.field.insert` -/',
         'structure ViewWiring where\n  zeros : Bool\n  reduce : Bool\n  intensity : Bool\n  weighted : Bool\nderiving DecidableEq, Repr\n']
    notes = []
    for meth in ('field', 'intensity', 'insert'):
        fn = _find_method(mod, 'Wavefront', meth)
        st = [s for s in fn.body if not (isinstance(s, ast.Expr) and isinstance(s.value, ast.Constant))]
        zeros = False
        if isinstance(st[0], ast.Assign) and ast.unparse(st[0].targets[0]) == 'out':
            v = st[0].value
            if not (isinstance(v, ast.Call) and ast.unparse(v.func) == 'np.zeros' and ast.unparse(v.args[0]) == 'self.shape'):
                raise Refuse(f'Wavefront.{meth}: initialisation of out not understood: {ast.unparse(st[0])}')
            zeros = True; st = st[1:]
        elif 'out' not in [a.arg for a in fn.args.args]: raise Refuse(f'Wavefront.{meth}: no out array')
        if len(st) != 2 or not isinstance(st[0], ast.For) or ast.unparse(st[1]) != 'return out': raise Refuse(f'Wavefront.{meth}: body shape changed')
        loop = st[0]
        it = ast.unparse(loop.iter)
        if it == 'self.data': red = False
        elif it == 'lentil.field.reduce(self.data)': red = True
        else: raise Refuse(f'Wavefront.{meth}: iterates {it}')
        if len(loop.body) != 1 or not isinstance(loop.body[0], ast.Assign) or ast.unparse(loop.body[0].targets[0]) != 'out':
            raise Refuse(f'Wavefront.{meth}: loop body changed')
        call = loop.body[0].value
        if not (isinstance(call, ast.Call) and ast.unparse(call.func) == 'lentil.field.insert' and [ast.unparse(a) for a in call.args] == [ast.unparse(loop.target), 'out']):
            raise Refuse(f'Wavefront.{meth}: not out = lentil.field.insert(field, out, ...)')
        kw = {k.arg: ast.unparse(k.value) for k in call.keywords}
        if set(kw) - {'intensity', 'weight'}: raise Refuse(f'Wavefront.{meth}: insert keywords {kw}')
        inten = {'True': True, 'False': False, None: False}.get(kw.get('intensity'), 'bad')
        if inten == 'bad': raise Refuse(f'Wavefront.{meth}: intensity={kw["intensity"]}')
        if kw.get('weight') not in (None, 'weight'): raise Refuse(f'Wavefront.{meth}: weight={kw["weight"]}')
        w = 'weight' in kw
        b = lambda x: 'true' if x else 'false'
        L.append(f'/-- translated from `wavefront.py:Wavefront.{meth}` (line {fn.lineno}) -/')
        L.append(f'def {meth}Wiring : ViewWiring := {{ zeros := {b(zeros)}, reduce := {b(red)}, intensity := {b(inten)}, weighted := {b(w)} }}\n')
        notes.append(f'{meth}: zeros={zeros} reduce={red} intensity={inten} weighted={w}')
    return '\n'.join(L), notes

MODULES.append({'name': 'WfViews', 'src': 'lentil/wavefront.py', 'generator': gen_views, 'props': ['C07', 'C03']})
