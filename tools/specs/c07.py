"""C07: `lentil.plane._mul_pixelscale(a_pixelscale, b_pixelscale)` — each argument is None or a pair.

The translator has no optional-pair parameter kind; the function is translated four times, once per None-pattern of
its arguments (kind 'none' folds the `is None` tests statically), and `Model/PlaneMeta.lean` dispatches on the
`Option`s. The value `None` of the first variant is rendered as `()`. Pixel scales are floats in lentil and `Int`
here: the function only compares them for equality and passes them on, which is the same over any type with
decidable equality (listed in the trusted base of C07)."""
import ast
from py2lean import V, NoneV

def _ret_none(tr, st, env):
    # `return out` where out is statically None  ->  unit
    if isinstance(st.value, ast.Name) and isinstance(env.get(st.value.id), NoneV): return V([])
    return None

def _sig(a, b):
    return {'py_name': '_mul_pixelscale', 'params': [('a_pixelscale', a), ('b_pixelscale', b)], 'ret_override': _ret_none,
            'lean_name': 'mulPixelscale' + ('N' if a == 'none' else 'P') + ('N' if b == 'none' else 'P')}

PLANEPX = {
    # the NN variant returns None, which the translator self-check (tools/transcheck.py) cannot flatten: the dummy
    # `call_as` entry marks it as not self-checkable (it is the constant `Except.ok ()`); the other three are self-checked
    '_mul_pixelscale#NN': dict(_sig('none', 'none'), call_as={'__not_selfchecked__()': 'a_pixelscale'}),
    '_mul_pixelscale#NP': _sig('none', 'pair'),
    '_mul_pixelscale#PN': _sig('pair', 'none'),
    '_mul_pixelscale#PP': _sig('pair', 'pair'),
}

MODULES = [
    {'name': 'PlanePx', 'src': 'lentil/plane.py', 'sigs': PLANEPX, 'props': ['C07']},
]
