#!/bin/sh
# ingest_seed.sh Cnn : copy /tmp/seed/Cnn/out/m{1,2} into /verif/seeded/Cnn-m{1,2}/ (patch.diff, demo.py, meta.json)
set -e
p=$1
for k in 1 2; do
  src=/tmp/seed/$p/out/m$k
  [ -f $src/patch.diff ] || continue
  dst=/verif/seeded/$p-m$k
  mkdir -p $dst
  cp $src/patch.diff $src/demo.py $src/meta.json $dst/
done
ls /verif/seeded | grep "^$p" || true
