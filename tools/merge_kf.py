#!/usr/bin/env python3
"""resolve a merge conflict in known_findings.json: union of findings (by id) and fixed entries (by property+commit)"""
import json, subprocess, sys
def load(stage):
    try: return json.loads(subprocess.run(['git', 'show', f':{stage}:known_findings.json'], capture_output=True, text=True, check=True).stdout)
    except Exception: return {'findings': [], 'fixed': []}
a, b = load(2), load(3)
f = {x['id']: x for x in a.get('findings', [])}
for x in b.get('findings', []): f.setdefault(x['id'], x)
fx = {(x['property'], x.get('commit')): x for x in a.get('fixed', [])}
for x in b.get('fixed', []): fx.setdefault((x['property'], x.get('commit')), x)
json.dump({'findings': list(f.values()), 'fixed': list(fx.values())}, open('known_findings.json', 'w'), indent=1)
print(len(f), 'findings', len(fx), 'fixed')
