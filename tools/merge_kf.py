#!/usr/bin/env python3
"""resolve a merge conflict in known_findings.json by a three-way merge: findings by id (deletions and edits of either side
relative to the merge base are kept), fixed entries by (property, commit) union"""
import json, subprocess
def load(stage):
    try: return json.loads(subprocess.run(['git', 'show', f':{stage}:known_findings.json'], capture_output=True, text=True, check=True).stdout)
    except Exception: return {'findings': [], 'fixed': []}
base, ours, theirs = load(1), load(2), load(3)
B = {x['id']: x for x in base.get('findings', [])}; O = {x['id']: x for x in ours.get('findings', [])}; T = {x['id']: x for x in theirs.get('findings', [])}
out = {}
for i in list(O) + [k for k in T if k not in O]:
    o, t, b = O.get(i), T.get(i), B.get(i)
    if b is not None and (o is None or t is None): continue            # deleted on one side
    if o is None: out[i] = t
    elif t is None: out[i] = o
    else: out[i] = t if (t != b and o == b) else o
fx = {(x['property'], x.get('commit')): x for x in ours.get('fixed', [])}
for x in theirs.get('fixed', []): fx.setdefault((x['property'], x.get('commit')), x)
json.dump({'findings': list(out.values()), 'fixed': list(fx.values())}, open('known_findings.json', 'w'), indent=1)
print(len(out), 'findings', len(fx), 'fixed')
