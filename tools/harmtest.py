#!/usr/bin/env python3
"""harmtest.py [ids…] — the false-alarm counterpart of seedtest.py: behaviour-preserving refactors under /verif/harmless/<id>/
(patch.diff, equiv.py, meta.json) are validated (tests pass, equiv.py shows bit-identical behaviour against the pristine tree) and the
property's quick check is run on them.  Outcome classes: held (exit 0) | structural (exit 1, `no-failing-input-found`: the tie broke, the
failing-input search found nothing — allowed, see DESIGN) | FALSE-INPUT (exit 1 with a concrete failing input: a defect of the oracle) | infra (exit 2).
Derived from: seedtest.py [ids…] — validate the seeded changes under /verif/seeded/<id>/ and run the registered checks on them.

For each seeded change (patch.diff, demo.py, meta.json): make a scratch worktree of /repo (outside /repo and /verif),
confirm (a) the existing test-suite still passes with the change, (b) the demonstration fails with the change and
passes without it, then (c) run the quick check of the property it breaks against the changed tree (VERIF_REPO) with a
scratch copy of the Lean project (VERIF_LEAN) and scratch evidence dir (VERIF_OUT), expecting exit 1 + VIOLATION.
Nothing is ever committed to /repo; scratch worktrees are removed afterwards. Not a registered check.
Writes seeded/<id>/result.json and prints one line per change."""
import json, os, shutil, subprocess, sys, tempfile, time
from concurrent.futures import ThreadPoolExecutor
HERE = os.path.dirname(os.path.abspath(__file__)); VERIF = os.path.dirname(HERE)
PY = '/venv/bin/python'

def sh(cmd, **kw):
    return subprocess.run(cmd, capture_output=True, text=True, **kw)

def one(sid, tier='quick', skip_validate=False):
    d = os.path.join(VERIF, 'harmless', sid)
    meta = json.load(open(os.path.join(d, 'meta.json')))
    prop = meta['property']
    props = meta.get('also_checks', []) + [prop]
    tmp = tempfile.mkdtemp(prefix=f'harm_{sid}_')
    wt = os.path.join(tmp, 'repo')
    res = {'id': sid, 'property': prop}
    try:
        r = sh(['git', '-C', '/repo', 'worktree', 'add', '-q', '--detach', wt, 'HEAD'])
        if r.returncode: res['error'] = 'worktree: ' + r.stderr[-300:]; return res
        env = dict(os.environ, LENTIL_PATH=wt, PYTHONPATH=wt)
        orig = os.path.join(tmp, 'orig')
        sh(['git', '-C', '/repo', 'worktree', 'add', '-q', '--detach', orig, 'HEAD'])
        env['LENTIL_ORIG'] = orig
        r = sh(['git', '-C', wt, 'apply', os.path.join(d, 'patch.diff')])
        if r.returncode: res['error'] = 'apply: ' + r.stderr[-300:]; return res
        if not skip_validate:
            e2 = dict(env); e2.pop('PYTHONPATH', None)
            r1 = sh([PY, os.path.join(d, 'equiv.py')], env=e2, cwd=tmp, timeout=1800)
            res['equiv_exit'] = r1.returncode
            res['equiv_msg'] = (r1.stdout + r1.stderr)[-300:]
            t = sh([PY, '-m', 'pytest', '-q', '-p', 'no:cacheprovider', '-x'], env=env, cwd=wt, timeout=1800)
            tail = t.stdout.strip().split('\n')[-1] if t.stdout.strip() else t.stderr[-200:]
            if '146 passed' not in tail:      # the suite draws random inputs: retry once, in full
                t = sh([PY, '-m', 'pytest', '-q', '-p', 'no:cacheprovider'], env=env, cwd=wt, timeout=1800)
                tail = (t.stdout.strip().split('\n')[-1] if t.stdout.strip() else t.stderr[-200:]) + ' (second run)'
            res['tests'] = tail
            res['valid'] = (res['equiv_exit'] == 0 and '146 passed' in tail)
        lean = os.path.join(tmp, 'lean')
        shutil.copytree(os.path.join(VERIF, 'lean'), lean, symlinks=True)
        out = os.path.join(tmp, 'out'); os.makedirs(out)
        res['checks'] = {}
        for p in dict.fromkeys(props):
            env2 = dict(os.environ, VERIF_REPO=wt, VERIF_LEAN=lean, VERIF_OUT=out)
            env2.pop('PYTHONPATH', None)
            t0 = time.time()
            c = sh([PY, os.path.join(HERE, 'check.py'), p, '--tier', tier], env=env2, cwd=VERIF, timeout=3600)
            lines = [l for l in c.stdout.split('\n') if l.startswith('VIOLATION') or l.strip().startswith('broken') or l.strip().startswith('failing input')]
            lines = [l for l in lines if l.startswith('VIOLATION')] + [l for l in lines if not l.startswith('VIOLATION')][:7]
            res['checks'][p] = {'exit': c.returncode, 'wall_s': round(time.time() - t0, 1), 'lines': lines[:8],
                                'tail': c.stdout[-400:] if c.returncode not in (0, 1) else ''}
        def cls(v):
            if v['exit'] == 0: return 'held'
            if v['exit'] == 1: return 'structural' if any('no-failing-input-found' in l for l in v['lines'] if l.startswith('VIOLATION')) else 'FALSE-INPUT'
            return 'infra'
        res['outcome'] = {p: cls(v) for p, v in res['checks'].items()}
        res['caught'] = None
        return res
    except subprocess.TimeoutExpired as e:
        res['error'] = f'timeout: {e}'; return res
    finally:
        sh(['git', '-C', '/repo', 'worktree', 'remove', '--force', wt]); sh(['git', '-C', '/repo', 'worktree', 'remove', '--force', os.path.join(tmp, 'orig')])
        shutil.rmtree(tmp, ignore_errors=True)
        json.dump(res, open(os.path.join(d, 'result.json'), 'w'), indent=1)

def main():
    args = [a for a in sys.argv[1:] if not a.startswith('--')]
    tier = 'thorough' if '--thorough' in sys.argv else 'quick'
    ids = args or sorted(os.listdir(os.path.join(VERIF, 'harmless')))
    ids = [i for i in ids if os.path.exists(os.path.join(VERIF, 'harmless', i, 'meta.json'))]
    jobs = int(os.environ.get('SEEDTEST_JOBS', '4'))
    with ThreadPoolExecutor(jobs) as ex:
        for res in ex.map(lambda i: one(i, tier, '--no-validate' in sys.argv), ids):
            sig = ''
            for p, v in res.get('checks', {}).items():
                sig += f" {p}:exit{v['exit']}"
            print(f"{res['id']:28s} valid={res.get('valid')} outcome={res.get('outcome')}{sig} {res.get('error', '')}")
            for p, v in res.get('checks', {}).items():
                for l in v['lines'][:3]: print('      ' + l[:200])
    sh(['git', '-C', '/repo', 'worktree', 'prune'])

if __name__ == '__main__':
    main()
