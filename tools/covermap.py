#!/venv/bin/python
"""covermap.py [--tier quick] [props...] : measured map of how much of lentil's source the machinery reaches.

For every function of /repo/lentil/*.py it reports which of the three ties covers it:
  G  regenerated  — translated into lean/LentilVerif/Gen/*.lean on every run (theorems are stated about the regenerated definition);
  P  pinned       — hand-modelled, its normalised AST skeleton is pinned (tools/pins) and it is run by the correspondence;
  x  exercised    — executed by the correspondence/oracle streams of at least one property (measured with coverage.py, per property);
  -  unreached    — no stream executes it: nothing in /verif says anything about it.
and, per function, the fraction of its executable lines that the generated cases of the quick tier execute.

Not a check (nothing is decided here); it is the measured answer to "which parts of the code are modelled, which only exercised, which
not reached at all" for DESIGN §4 and for choosing where to extend the model. Writes notes/coverage_map.md and notes/coverage_map.json."""
import ast, importlib, json, os, sys, time, traceback
HERE = os.path.dirname(os.path.abspath(__file__))
sys.path.insert(0, HERE)
import coverage
import vlib, gen
from vlib import VERIF, REPO

def functions_of(path):
    tree = ast.parse(open(path).read())
    out = []
    def walk(node, prefix):
        for ch in ast.iter_child_nodes(node):
            if isinstance(ch, (ast.FunctionDef, ast.AsyncFunctionDef)):
                q = prefix + ch.name
                first = ch.body[0].lineno
                if isinstance(ch.body[0], ast.Expr) and isinstance(getattr(ch.body[0], 'value', None), ast.Constant) \
                        and isinstance(ch.body[0].value.value, str) and len(ch.body) > 1:
                    first = ch.body[1].lineno
                out.append((q, first, ch.end_lineno))
                walk(ch, q + '.')
            elif isinstance(ch, ast.ClassDef):
                walk(ch, prefix + ch.name + '.')
    walk(tree, '')
    return out

def main():
    args = [a for a in sys.argv[1:] if not a.startswith('--')]
    tier = 'quick'
    props = [a.upper() for a in args] or [f'C{i:02d}' for i in range(1, 21)]
    import numpy as np
    cov = coverage.Coverage(data_file=None, source=[os.path.join(REPO, 'lentil')], branch=False, config_file=False)
    vlib.import_lentil()
    # modules are already imported (definitions executed): only run-time lines count below, which is what we want
    cov.start()
    ncases = {}
    t0 = time.time()
    for p in props:
        cov.switch_context(p)
        try:
            H = importlib.import_module(f'harness.{p.lower()}')
            rng = np.random.default_rng([0, int(p[1:])])
            cases = []
            cd = os.path.join(HERE, 'corpus', p)
            if os.path.isdir(cd):
                for fn in sorted(os.listdir(cd)):
                    if fn.endswith('.json'): cases.append(json.load(open(os.path.join(cd, fn))))
            cases += list(H.generate(rng, tier))
            n = 0
            for c in cases:
                try:
                    io = H.impl(c)
                    try: H.oracle(c, io)
                    except Exception: pass
                    n += 1
                except Exception:
                    pass
            ncases[p] = n
        except Exception as e:
            ncases[p] = f'harness failed: {type(e).__name__}: {e}'
        print(p, ncases[p], f'{time.time() - t0:.0f}s', file=sys.stderr)
    cov.stop()
    data = cov.get_data()
    genrep = gen.generate(REPO, leandir=os.environ.get('VERIF_LEAN'))
    regenerated = {}           # src -> {py function name -> [Gen modules]}
    tables = {}                # src -> [Gen modules produced by a table generator]
    for name, e in genrep.items():
        if 'functions' in e:
            for f in e['functions']:
                regenerated.setdefault(e['src'], {}).setdefault(f['py'], []).append(name + ('[block]' if f.get('block') else ''))
        else:
            tables.setdefault(e['src'], []).append(name)
    pinned = {}                # src -> {qualname -> [props]}
    for p in [f'C{i:02d}' for i in range(1, 21)]:
        pf = os.path.join(HERE, 'pins', p + '.json')
        if os.path.exists(pf):
            for src, fns in json.load(open(pf)).items():
                for q in fns: pinned.setdefault(src, {}).setdefault(q, []).append(p)
    rows, summary = [], {}
    ldir = os.path.join(REPO, 'lentil')
    for fn in sorted(os.listdir(ldir)):
        if not fn.endswith('.py'): continue
        path = os.path.join(ldir, fn); src = 'lentil/' + fn
        try:
            _, executable, _, _ = cov.analysis(path)
        except Exception:
            continue
        ctx = data.contexts_by_lineno(path) if path in data.measured_files() else {}
        tot = hit = 0
        for q, a, z in functions_of(path):
            lines = [l for l in executable if a <= l <= z]
            if not lines: continue
            by = {}
            for l in lines:
                for c in ctx.get(l, []):
                    if c: by.setdefault(c, set()).add(l)
            reached = set().union(*by.values()) if by else set()
            short = q.split('.')[-1]
            g = regenerated.get(src, {}).get(q) or regenerated.get(src, {}).get(short) or []
            pn = pinned.get(src, {}).get(q, [])
            kind = 'G' if g else 'P' if pn else 'x' if reached else '-'
            rows.append({'file': src, 'function': q, 'lines': len(lines), 'reached': len(reached), 'kind': kind, 'gen': g,
                         'pinned_by': pn, 'exercised_by': sorted(by), 'unreached_lines': [l for l in lines if l not in reached]})
            tot += len(lines); hit += len(reached)
        summary[src] = {'executable_lines_in_functions': tot, 'reached': hit, 'table_modules': tables.get(src, [])}
    json.dump({'repo_head': os.popen(f'git -C {REPO} rev-parse --short HEAD').read().strip(), 'tier': tier, 'cases': ncases,
               'files': summary, 'functions': rows}, open(os.path.join(VERIF, 'notes', 'coverage_map.json'), 'w'), indent=1)
    T = sum(s['executable_lines_in_functions'] for s in summary.values()); R = sum(s['reached'] for s in summary.values())
    md = ['# Measured coverage of lentil by the ties (generated by tools/covermap.py — do not edit)', '',
          f"/repo HEAD {os.popen(f'git -C {REPO} rev-parse --short HEAD').read().strip()}; quick-tier generators at seed 0 plus corpus; "
          f"{sum(v for v in ncases.values() if isinstance(v, int))} implementation runs.", '',
          'Kinds: **G** regenerated into `Gen/*.lean` on every run (a theorem is about the regenerated definition); **P** hand-modelled, '
          'AST skeleton pinned, run by the correspondence; **x** executed by a correspondence/oracle stream only (behaviour compared or '
          'judged, source not pinned); **-** not reached by any stream.', '',
          f'Lines inside functions: {T}; executed by at least one stream: {R} ({100 * R / max(T, 1):.1f} %).', '',
          '| file | lines in functions | reached | % | table modules (regenerated) | functions G / P / x / - |', '|---|---|---|---|---|---|']
    for src, s in summary.items():
        ks = [r['kind'] for r in rows if r['file'] == src]
        md.append(f"| {src} | {s['executable_lines_in_functions']} | {s['reached']} | "
                  f"{100 * s['reached'] / max(s['executable_lines_in_functions'], 1):.0f} | {', '.join(s['table_modules']) or '—'} | "
                  f"{ks.count('G')} / {ks.count('P')} / {ks.count('x')} / {ks.count('-')} |")
    md += ['', '## Functions not reached by any stream', '']
    for r in rows:
        if r['kind'] == '-': md.append(f"* `{r['file']}::{r['function']}` ({r['lines']} lines)")
    md += ['', '## Modelled functions with lines no stream executes (G or P with unreached lines)', '']
    for r in rows:
        if r['kind'] in 'GP' and r['unreached_lines']:
            md.append(f"* `{r['file']}::{r['function']}` [{r['kind']}] lines {r['unreached_lines']}")
    md += ['', '## Per function', '', '| function | kind | lines | reached | Gen modules | pinned by | exercised by |', '|---|---|---|---|---|---|---|']
    for r in rows:
        md.append(f"| `{r['file'][7:]}::{r['function']}` | {r['kind']} | {r['lines']} | {r['reached']} | {', '.join(r['gen']) or ''} | "
                  f"{' '.join(r['pinned_by'])} | {' '.join(r['exercised_by'])} |")
    open(os.path.join(VERIF, 'notes', 'coverage_map.md'), 'w').write('\n'.join(md) + '\n')
    print(f'{R}/{T} lines reached; notes/coverage_map.md written')

if __name__ == '__main__':
    main()
