#!/bin/sh
# ingest_seed5.sh Cnn : copy /tmp/seed5/Cnn/out/m{1,2} into /verif/seeded/Cnn-r5m{1,2}/ and remove the scratch worktree
set -e
p=$1
for k in 1 2; do
  src=/tmp/seed5/$p/out/m$k
  [ -f $src/patch.diff ] || { echo "$p m$k: no patch"; continue; }
  dst=/verif/seeded/$p-r5m$k
  mkdir -p $dst
  cp $src/patch.diff $src/demo.py $src/meta.json $dst/
  sed -i "s#/tmp/seed5/$p/repo#<scratch worktree>#g; s#/tmp/seed5/$p/out#<out>#g" $dst/meta.json
done
git -C /repo worktree remove --force /tmp/seed5/$p/repo 2>/dev/null || true
ls /verif/seeded | grep "^$p-r5" || true
