#!/bin/sh
# ingest_harm.sh Cnn : copy /tmp/harm/Cnn/out/h{1,2} into /verif/harmless/Cnn-h{1,2}/ and remove the scratch worktrees
p=$1
for k in 1 2; do
  src=/tmp/harm/$p/out/h$k
  [ -f $src/patch.diff ] || { echo "$p h$k: no patch"; continue; }
  dst=/verif/harmless/$p-h$k
  mkdir -p $dst
  cp $src/patch.diff $src/equiv.py $src/meta.json $dst/
  sed -i "s#/tmp/harm/$p/repo#<scratch worktree>#g; s#/tmp/harm/$p/orig#<pristine worktree>#g; s#/tmp/harm/$p/out#<out>#g" $dst/meta.json
done
git -C /repo worktree remove --force /tmp/harm/$p/repo 2>/dev/null
git -C /repo worktree remove --force /tmp/harm/$p/orig 2>/dev/null
git -C /tmp/harm/$p/repo worktree prune 2>/dev/null
ls /verif/harmless 2>/dev/null | grep "^$p-h"
