#!/bin/sh
# harmlesstest.sh — false-alarm control (not a registered check): reformat every lentil/*.py through ast.unparse (drops
# comments, normalises whitespace, parentheses, quotes, line breaks; semantics unchanged) in a scratch worktree of /repo and
# run every quick check against it. Every check must still exit 0. The scratch worktree is removed afterwards.
set -e
cd "$(dirname "$0")/.."
T=$(mktemp -d /tmp/harmless.XXXXXX)
git -C /repo worktree add -q --detach $T/repo HEAD
( cd $T/repo && /venv/bin/python - <<'P'
import ast, glob
for f in glob.glob('lentil/*.py'):
    src = open(f).read()                      # read BEFORE opening for writing (opening truncates)
    assert len(src) > 0
    open(f, 'w').write('# reformatted\n' + ast.unparse(ast.parse(src)) + '\n')
P
)
cp -a lean $T/lean; mkdir $T/out
rc=0
for i in $(seq -w 1 20); do
  VERIF_REPO=$T/repo VERIF_LEAN=$T/lean VERIF_OUT=$T/out /venv/bin/python tools/check.py C$i 2>&1 | grep "held\|VIOLATION" | cut -c1-160 || true
done | tee $T/log
grep -q VIOLATION $T/log && rc=1
git -C /repo worktree remove --force $T/repo; rm -rf $T; git -C /repo worktree prune
exit $rc
