"""Shared machinery for tools/check.py and the per-property harnesses (tools/harness/cNN.py)."""
import hashlib, json, os, re, struct, subprocess, sys, time

TOOLS = os.path.dirname(os.path.abspath(__file__))
VERIF = os.path.dirname(TOOLS)
LEAN = os.environ.get('VERIF_LEAN') or os.path.join(VERIF, 'lean')     # self-test runs may use a scratch copy
OUT = os.environ.get('VERIF_OUT') or VERIF                              # where evidence/ and replays/ are written
REPO = os.environ.get('VERIF_REPO', '/repo')
GUARD = 'LENTIL_VERIF'
os.environ.setdefault(GUARD, '1')

STD_AXIOMS = {'propext', 'Classical.choice', 'Quot.sound'}
FORBIDDEN = re.compile(r'\b(sorry|admit|native_decide|bv_decide|implemented_by|unsafe)\b|^\s*axiom\s|maxHeartbeats\s+0\b')


def import_lentil():
    """import the implementation from the repository's *current working tree*"""
    if REPO not in sys.path: sys.path.insert(0, REPO)
    import lentil
    got = os.path.realpath(os.path.dirname(os.path.dirname(lentil.__file__)))
    if got != os.path.realpath(REPO):
        raise RuntimeError(f'lentil imported from {got}, expected {REPO}')
    return lentil


# ---------------------------------------------------------------------------------- floats over the pipe
def fbits(x):
    return struct.unpack('<Q', struct.pack('<d', float(x)))[0]

def bitsf(n):
    return struct.unpack('<d', struct.pack('<Q', int(n)))[0]

def fl(xs): return [fbits(x) for x in xs]
def unfl(ns): return [bitsf(n) for n in ns]


# ---------------------------------------------------------------------------------- Lean side
def strip_comments(text):
    text = re.sub(r'/-.*?-/', lambda m: '\n' * m.group(0).count('\n'), text, flags=re.S)
    return re.sub(r'--.*', '', text)

def theorems_in(path):
    """[(qualified name, first line, last line)] for every `theorem` in a Lean file, tracking namespaces"""
    raw = open(path).read()
    text = strip_comments(raw)
    ns, out = [], []
    lines = text.split('\n')
    for i, l in enumerate(lines, 1):
        m = re.match(r'\s*namespace\s+(\S+)', l)
        if m: ns.append(m.group(1)); continue
        m = re.match(r'\s*end\s+(\S+)', l)
        if m and ns and ns[-1] == m.group(1): ns.pop(); continue
        m = re.match(r'\s*(?:@\[[^\]]*\]\s*)?(?:private\s+|protected\s+)?theorem\s+(\S+)', l)
        if m:
            out.append(['.'.join(ns + [m.group(1)]), i, None])
    starts = [m.start() for m in re.finditer(r'(?m)^\s*(?:@\[[^\]]*\]\s*)?(?:private\s+|protected\s+)?(theorem|lemma|def|example|instance|structure|inductive|abbrev|namespace|end|section|open|variable|#print|#eval|noncomputable|set_option)\b', text)]
    start_lines = sorted({text.count('\n', 0, s) + 1 for s in starts})
    for t in out:
        nxt = [s for s in start_lines if s > t[1]]
        t[2] = (nxt[0] - 1) if nxt else len(lines)
    return [tuple(t) for t in out]

def forbidden_tokens(paths):
    hits = []
    for p in paths:
        txt = strip_comments(open(p).read())
        for i, l in enumerate(txt.split('\n'), 1):
            if FORBIDDEN.search(l): hits.append(f'{os.path.relpath(p, LEAN)}:{i}: {l.strip()[:80]}')
    return hits

def lean_deps(module, seen=None):
    """project-local transitive imports of a module (files under lean/)"""
    seen = seen if seen is not None else {}
    path = os.path.join(LEAN, module.replace('.', '/') + '.lean')
    if module in seen or not os.path.exists(path): return seen
    seen[module] = path
    for m in re.finditer(r'(?m)^import\s+(\S+)', open(path).read()):
        if m.group(1).split('.')[0] in ('LentilVerif', 'Driver'): lean_deps(m.group(1), seen)
    return seen

def lake_build(targets, timeout=3000):
    t0 = time.time()
    p = subprocess.run(['lake', 'build'] + targets, cwd=LEAN, capture_output=True, text=True, timeout=timeout)
    out = p.stdout + p.stderr
    errors = []
    for m in re.finditer(r'(?m)^error: (\S+?\.lean):(\d+):(\d+): (.*)$', out):
        errors.append({'file': m.group(1), 'line': int(m.group(2)), 'msg': m.group(4)[:300]})
    return {'ok': p.returncode == 0, 'errors': errors, 'log': out[-6000:], 'wall_s': round(time.time() - t0, 2)}

def print_axioms(prop, module, names, timeout=1200):
    """run `#print axioms` on every theorem; {name: [axioms]}"""
    d = os.path.join(LEAN, '.lake', 'audit'); os.makedirs(d, exist_ok=True)
    f = os.path.join(d, f'Audit_{prop}.lean')
    open(f, 'w').write(f'import {module}\n' + ''.join(f'#print axioms {n}\n' for n in names))
    p = subprocess.run(['lake', 'env', 'lean', f], cwd=LEAN, capture_output=True, text=True, timeout=timeout)
    out = p.stdout + p.stderr
    res = {}
    for m in re.finditer(r"'([^']+)' depends on axioms: \[([^\]]*)\]", out, flags=re.S):
        res[m.group(1)] = [a.strip() for a in m.group(2).replace('\n', ' ').split(',') if a.strip()]
    for m in re.finditer(r"'([^']+)' does not depend on any axioms", out):
        res[m.group(1)] = []
    return res, out[-3000:]

def leanchecker(modules, timeout=3000, batch=12):
    """independent re-check of the compiled .olean files (thorough tier), in batches so that the peak memory stays bounded
    (one invocation on 75 modules was seen at 31 GB).  Returns (verdict, seconds, tail): verdict True = every batch
    accepted, False = leanchecker REJECTED a module (exit code 1 with its message), None = inconclusive (killed by a
    signal / out of memory / timed out): recorded, never counted as a rejection."""
    t0 = time.time(); tail = ''; verdict = True
    for i in range(0, len(modules), batch):
        left = timeout - (time.time() - t0)
        if left <= 0: return None, round(time.time() - t0, 1), 'time budget exhausted after %d modules' % i
        try:
            p = subprocess.run(['lake', 'env', 'leanchecker'] + modules[i:i + batch], cwd=LEAN, capture_output=True, text=True, timeout=left)
        except subprocess.TimeoutExpired:
            return None, round(time.time() - t0, 1), 'timed out'
        out = (p.stdout + p.stderr)[-600:]
        if p.returncode == 0: continue
        if p.returncode < 0 or p.returncode in (137, 139, 143) or 'out of memory' in out.lower() or 'killed' in out.lower() or not out.strip():
            verdict = None; tail = f'batch {i // batch}: leanchecker ended with code {p.returncode} without a verdict: ' + out
            continue
        return False, round(time.time() - t0, 1), out
    return verdict, round(time.time() - t0, 1), tail

LOOP_TMPL = '''{imports}
/-! GENERATED by tools/check.py: model driver for {prop} (ops: {ops}). -/
open Lean Drv
def dispatch (op : String) (j : Json) : Option (R Json) :=
  {chain}
def main : IO Unit := Drv.mainLoop dispatch
'''

def write_driver(prop, ops):
    d = os.path.join(LEAN, 'Driver', 'Run'); os.makedirs(d, exist_ok=True)
    imports = 'import Driver.Loop\n' + '\n'.join(f'import Driver.Ops.{o}' for o in ops)
    chain = ' <|> '.join(f'(Ops.{o}.handle op j)' for o in ops)
    text = LOOP_TMPL.format(imports=imports, prop=prop, ops=', '.join(ops), chain=chain)
    path = os.path.join(d, f'{prop}.lean')
    if not os.path.exists(path) or open(path).read() != text: open(path, 'w').write(text)
    return f'Driver.Run.{prop}', path

def run_model(prop, requests, timeout=3000):
    """pipe the requests (one JSON object per line) through the model driver; list of decoded answers"""
    if not requests: return []
    path = os.path.join('Driver', 'Run', f'{prop}.lean')
    data = '\n'.join(json.dumps(r, separators=(',', ':')) for r in requests) + '\n'
    p = subprocess.run(['lake', 'env', 'lean', '--run', path], cwd=LEAN, input=data, capture_output=True, text=True,
                       timeout=timeout)
    lines = [l for l in p.stdout.split('\n') if l.strip()]
    if p.returncode != 0 or len(lines) != len(requests):
        raise RuntimeError(f'model driver failed (exit {p.returncode}, {len(lines)}/{len(requests)} answers): '
                           + (p.stderr or p.stdout)[-1500:])
    return [json.loads(l) for l in lines]


# ---------------------------------------------------------------------------------- misc
def jhash(obj):
    return hashlib.sha256(json.dumps(obj, sort_keys=True, default=str).encode()).hexdigest()[:12]

def exc_name(e):
    return type(e).__name__

class Tally(dict):
    def hit(self, k, n=1): self[k] = self.get(k, 0) + n
