#!/bin/sh
# ingest_seed6.sh Cnn : copy /tmp/seed6/Cnn/out/m{1,2,3} into /verif/seeded/Cnn-r6m{1,2,3}/ and remove the scratch worktree
p=$1
for k in 1 2 3; do
  src=/tmp/seed6/$p/out/m$k
  [ -f $src/patch.diff ] && [ -f $src/demo.py ] && [ -f $src/meta.json ] || { echo "$p m$k: incomplete"; continue; }
  dst=/verif/seeded/$p-r6m$k
  mkdir -p $dst
  cp $src/patch.diff $src/demo.py $src/meta.json $dst/
  sed -i "s#/tmp/seed6/$p/repo#<scratch worktree>#g; s#/tmp/seed6/$p/out#<out>#g" $dst/meta.json
done
git -C /repo worktree remove --force /tmp/seed6/$p/repo 2>/dev/null
ls /verif/seeded | grep "^$p-r6" | tr '\n' ' '
