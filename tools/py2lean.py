#!/usr/bin/env python3
"""py2lean: translate a small, integer/table fragment of lentil's Python source into Lean 4.

The translator is the *regenerated* tie between /repo and the Lean model (DESIGN.md §2.2): it is run by
tools/check.py on every run, reads the *current* working tree of the repository and rewrites
lean/LentilVerif/Gen/*.lean.  The theorems in Props/ are stated about these generated definitions, so they are
re-checked against what the code says now.

It accepts a deliberately small subset of Python and REFUSES (raises Refuse) anything else:

  * function bodies made of assignments (also tuple unpacking, augmented assignment), if/elif/else,
    return, raise (terminal), docstrings;
  * integer + - * and // by a positive integer literal, unary minus, comparisons, and/or/not,
    conditional expressions, max/min (2 args or a 2-tuple, also np.max/np.min), int(), len(),
    tuples and constant subscripts of tuples, slice(a, b) and .start/.stop of it, np.asarray/np.array/tuple
    (identity on tuples), np.all(vec == k);
  * fixed-length "vectors" (tuples): + - * // broadcast element-wise exactly like a NumPy int array of that length;
  * calls to other translated functions of the same spec.

Python ints are unbounded, Lean `Int` is unbounded; Python `//` by a positive literal is floor division, which
is what Lean's `Int./` (`Int.div` rounding toward -inf for positive divisors, i.e. `Int.ediv`) computes.

Parameter kinds are declared per function in a spec (see tools/gen_specs.py): 'int', 'pair', 'ext' (4-tuple),
'slice2' (pair of slices), 'none' (argument specialised to None), ('attr', {...}) objects with int/pair attributes.
"""
import ast, hashlib, os, sys

class Refuse(Exception):
    pass

# ----------------------------------------------------------------------------------------------
# symbolic values
class S:            # Int scalar, .e = Lean expression
    def __init__(s, e, const=None): s.e = e; s.const = const
class B:            # Bool, .e Lean Bool expression; const = python bool if statically known
    def __init__(s, e, const=None): s.e = e; s.const = const
class V:            # fixed-length tuple of values
    def __init__(s, items): s.items = list(items)
class O:            # optional tuple: none | some V
    def __init__(s, e, inner): s.e = e; s.inner = inner   # inner: type string
class NoneV:        # python None
    pass
class Obj:          # object with attributes
    def __init__(s, attrs): s.attrs = attrs
class Str:
    def __init__(s, v): s.v = v

def lean_ty(v):
    if isinstance(v, S): return 'Int'
    if isinstance(v, B): return 'Bool'
    if isinstance(v, V):
        if not v.items: return 'Unit'
        return '(' + ' × '.join(lean_ty(x) for x in v.items) + ')'
    if isinstance(v, O): return f'(Option {v.inner})'
    raise Refuse(f'no Lean type for {type(v).__name__}')

def lean_val(v):
    if isinstance(v, (S, B)): return v.e
    if isinstance(v, V):
        if not v.items: return '()'
        return '(' + ', '.join(lean_val(x) for x in v.items) + ')'
    if isinstance(v, O): return v.e
    raise Refuse(f'no Lean value for {type(v).__name__}')

def flat_names(base, v):
    """fresh Lean identifiers for a value of the shape of v"""
    if isinstance(v, S): return S(base)
    if isinstance(v, B): return B(base)
    if isinstance(v, O): return O(base, v.inner)
    if isinstance(v, V): return V([flat_names(f'{base}_{i}', x) for i, x in enumerate(v.items)])
    raise Refuse(f'cannot bind {type(v).__name__}')

def leaves(v):
    if isinstance(v, (S, B, O)): return [v]
    if isinstance(v, V): return [l for x in v.items for l in leaves(x)]
    raise Refuse('leaves')

def same_shape(a, b):
    if type(a) is not type(b): return False
    if isinstance(a, V): return len(a.items) == len(b.items) and all(same_shape(x, y) for x, y in zip(a.items, b.items))
    return True

def camel(f):
    p = f.strip('_').split('_')
    return p[0] + ''.join(x.capitalize() for x in p[1:])

# ----------------------------------------------------------------------------------------------
class FnTranslator:
    def __init__(self, spec, fn, sig, all_sigs, rets):
        self.spec, self.fn, self.sig, self.all_sigs, self.rets = spec, fn, sig, all_sigs, rets
        self.has_raise = any(isinstance(n, ast.Raise) for n in ast.walk(fn))
        self.specialised = []

    # -- parameters
    def params(self):
        env, names = {}, []
        for name, kind in self.sig['params']:
            if kind == 'int':
                env[name] = S(name); names.append(name)
            elif kind == 'pair':
                env[name] = V([S(f'{name}_0'), S(f'{name}_1')]); names += [f'{name}_0', f'{name}_1']
            elif kind == 'ext':
                env[name] = V([S(f'{name}_{i}') for i in range(4)]); names += [f'{name}_{i}' for i in range(4)]
            elif kind == 'slice2':
                env[name] = V([V([S(f'{name}_0_start'), S(f'{name}_0_stop')]), V([S(f'{name}_1_start'), S(f'{name}_1_stop')])])
                names += [f'{name}_0_start', f'{name}_0_stop', f'{name}_1_start', f'{name}_1_stop']
            elif kind == 'bool01':
                # a Python truth value that enters as an Int parameter (0 = False, anything else = True)
                env[name] = B(f'(decide ({name} ≠ (0 : Int)))'); names.append(name)
            elif kind == 'none':
                env[name] = NoneV(); self.specialised.append(f'{name}=None')
            elif isinstance(kind, tuple) and kind[0] == 'attr':
                attrs = {}
                for a, k in kind[1].items():
                    if k == 'pair':
                        attrs[a] = V([S(f'{name}_{a}_0'), S(f'{name}_{a}_1')]); names += [f'{name}_{a}_0', f'{name}_{a}_1']
                    elif k == 'pairk':
                        # a pair that also carries its container type (list / tuple / ndarray …) as an Int tag
                        attrs[a] = V([S(f'{name}_{a}_0'), S(f'{name}_{a}_1')]); attrs[a].kind = S(f'{name}_{a}_kind')
                        names += [f'{name}_{a}_0', f'{name}_{a}_1', f'{name}_{a}_kind']
                    elif k == 'ext':
                        attrs[a] = V([S(f'{name}_{a}_{i}') for i in range(4)]); names += [f'{name}_{a}_{i}' for i in range(4)]
                    elif k == 'int':
                        attrs[a] = S(f'{name}_{a}'); names.append(f'{name}_{a}')
                    elif isinstance(k, tuple) and k[0] == 'vec' and isinstance(k[1], int) and k[1] > 0:
                        # fixed-length integer tuple attribute (e.g. the shape of a cube)
                        attrs[a] = V([S(f'{name}_{a}_{i}') for i in range(k[1])]); names += [f'{name}_{a}_{i}' for i in range(k[1])]
                    else: raise Refuse(f'attr kind {k}')
                env[name] = Obj(attrs)
            elif isinstance(kind, tuple) and kind[0] == 'const':
                env[name] = S(f'({kind[1]} : Int)', const=kind[1]); self.specialised.append(f'{name}={kind[1]}')
            else:
                raise Refuse(f'unknown param kind {kind}')
        return env, names

    # -- expressions
    def arith(self, op, a, b):
        if isinstance(a, V) or isinstance(b, V):
            if isinstance(a, V) and isinstance(b, V):
                if len(a.items) != len(b.items): raise Refuse('vector length mismatch')
                return V([self.arith(op, x, y) for x, y in zip(a.items, b.items)])
            if isinstance(a, V): return V([self.arith(op, x, b) for x in a.items])
            return V([self.arith(op, a, y) for y in b.items])
        if not (isinstance(a, S) and isinstance(b, S)): raise Refuse(f'arithmetic on {type(a).__name__},{type(b).__name__}')
        if op == '//':
            if b.const is None or b.const <= 0: raise Refuse('// only by a positive integer literal')
            return S(f'({a.e} / {b.e})')
        c = None
        if a.const is not None and b.const is not None:
            c = {'+': a.const + b.const, '-': a.const - b.const, '*': a.const * b.const}[op]
        return S(f'({a.e} {op} {b.e})', const=c)

    def cmp(self, op, a, b):
        if isinstance(a, V) and isinstance(b, S): return V([self.cmp(op, x, b) for x in a.items])
        if isinstance(a, V) and isinstance(b, V) and len(a.items) == len(b.items) and op in ('==', '!='):
            parts = [self.cmp('==', x, y) for x, y in zip(a.items, b.items)]
            # Python `==` on sequences is container-sensitive ([1, 2] != (1, 2)): when both operands carry a container
            # tag (param kind 'pairk') the tags must agree too; np.array_equal strips the tags (value equality only)
            if getattr(a, 'kind', None) is not None and getattr(b, 'kind', None) is not None:
                parts = [self.cmp('==', a.kind, b.kind)] + parts
            e = B('(' + ' && '.join(p.e for p in parts) + ')')
            return e if op == '==' else B(f'(!{e.e})')
        if not (isinstance(a, S) and isinstance(b, S)): raise Refuse(f'comparison on {type(a).__name__},{type(b).__name__}')
        lop = {'<': '<', '<=': '≤', '>': '>', '>=': '≥', '==': '=', '!=': '≠'}[op]
        c = None
        if a.const is not None and b.const is not None:
            c = {'<': a.const < b.const, '<=': a.const <= b.const, '>': a.const > b.const, '>=': a.const >= b.const,
                 '==': a.const == b.const, '!=': a.const != b.const}[op]
        return B(f'(decide ({a.e} {lop} {b.e}))', const=c)

    def expr(self, e, env):
        if isinstance(e, ast.Constant):
            v = e.value
            if isinstance(v, bool): return B('true' if v else 'false', const=v)
            if isinstance(v, int): return S(f'({v} : Int)', const=v)
            if v is None: return NoneV()
            if isinstance(v, str): return Str(v)
            raise Refuse(f'constant {v!r}')
        if isinstance(e, ast.Name):
            if e.id in env: return env[e.id]
            if e.id == 'Ellipsis': return Str('Ellipsis')
            raise Refuse(f'unknown name {e.id}')
        if isinstance(e, ast.Attribute):
            src = ast.unparse(e)
            if src == 'sys.maxsize': return S('(9223372036854775807 : Int)', const=9223372036854775807)
            base = self.expr(e.value, env)
            if isinstance(base, Obj) and e.attr in base.attrs: return base.attrs[e.attr]
            if isinstance(base, V) and len(base.items) == 2 and e.attr in ('start', 'stop'):
                return base.items[0 if e.attr == 'start' else 1]
            raise Refuse(f'attribute {src}')
        if isinstance(e, ast.BinOp):
            ops = {ast.Add: '+', ast.Sub: '-', ast.Mult: '*', ast.FloorDiv: '//'}
            if type(e.op) not in ops: raise Refuse(f'operator {type(e.op).__name__}')
            return self.arith(ops[type(e.op)], self.expr(e.left, env), self.expr(e.right, env))
        if isinstance(e, ast.UnaryOp):
            v = self.expr(e.operand, env)
            if isinstance(e.op, ast.USub):
                if isinstance(v, V): return V([self.arith('-', S('(0 : Int)', const=0), x) for x in v.items])
                if not isinstance(v, S): raise Refuse('unary minus')
                return S(f'(-{v.e})', const=None if v.const is None else -v.const)
            if isinstance(e.op, ast.Not):
                if not isinstance(v, B): raise Refuse('not on non-bool')
                return B(f'(!{v.e})', const=None if v.const is None else (not v.const))
            raise Refuse('unary op')
        if isinstance(e, ast.Compare):
            if len(e.ops) != 1: raise Refuse('chained comparison')
            a, b = self.expr(e.left, env), self.expr(e.comparators[0], env)
            if isinstance(e.ops[0], (ast.Is, ast.IsNot)):
                if not isinstance(b, NoneV): raise Refuse('is only against None')
                isn = isinstance(a, NoneV)
                val = isn if isinstance(e.ops[0], ast.Is) else not isn
                return B('true' if val else 'false', const=val)
            ops = {ast.Lt: '<', ast.LtE: '<=', ast.Gt: '>', ast.GtE: '>=', ast.Eq: '==', ast.NotEq: '!='}
            if type(e.ops[0]) not in ops: raise Refuse('comparison operator')
            return self.cmp(ops[type(e.ops[0])], a, b)
        if isinstance(e, ast.BoolOp):
            vals = [self.expr(v, env) for v in e.values]
            if not all(isinstance(v, B) for v in vals): raise Refuse('and/or on non-bool')
            j = ' && ' if isinstance(e.op, ast.And) else ' || '
            c = None
            if all(v.const is not None for v in vals):
                c = all(v.const for v in vals) if isinstance(e.op, ast.And) else any(v.const for v in vals)
            return B('(' + j.join(v.e for v in vals) + ')', const=c)
        if isinstance(e, ast.IfExp):
            c, a, b = self.expr(e.test, env), self.expr(e.body, env), self.expr(e.orelse, env)
            if isinstance(c, B) and c.const is not None:   # statically decided test (e.g. `x is not None` of a specialised parameter): the chosen arm, of any shape
                self.folded.append(ast.unparse(e.test) + ' = ' + str(c.const))
                return a if c.const else b
            if not isinstance(c, B) or not same_shape(a, b) or not isinstance(a, (S, B)): raise Refuse('conditional expression')
            return type(a)(f'(if {c.e} then {a.e} else {b.e})')
        if isinstance(e, (ast.Tuple, ast.List)):
            return V([self.expr(x, env) for x in e.elts])
        if isinstance(e, ast.Subscript):
            base = self.expr(e.value, env)
            idx = e.slice
            if isinstance(idx, ast.UnaryOp) and isinstance(idx.op, ast.USub) and isinstance(idx.operand, ast.Constant):
                k = -idx.operand.value
            elif isinstance(idx, ast.Constant) and isinstance(idx.value, int): k = idx.value
            elif isinstance(idx, (ast.BinOp, ast.Name)):
                # index expression that folds to a literal (e.g. `0+offset` with `offset` specialised to a constant)
                kv = self.expr(idx, env)
                if not isinstance(kv, S) or kv.const is None: raise Refuse('subscript must fold to an integer literal')
                k = kv.const
            else: raise Refuse('subscript must be an integer literal')
            if not isinstance(base, V): raise Refuse('subscript of non-tuple')
            try: return base.items[k]
            except IndexError: raise Refuse('subscript out of range')
        if isinstance(e, ast.Call):
            f = ast.unparse(e.func)
            if ast.unparse(e) in self.sig.get('call_as', {}):
                return env[self.sig['call_as'][ast.unparse(e)]]
            args = [self.expr(a, env) for a in e.args]
            if e.keywords: raise Refuse('keyword arguments')
            if f in ('int',) and len(args) == 1 and isinstance(args[0], S): return args[0]
            if f in ('np.asarray', 'np.array', 'tuple') and len(args) == 1 and isinstance(args[0], V): return args[0]
            if f == 'np.asarray' and len(args) == 1 and isinstance(args[0], Obj): return args[0]   # array-like keeps its attributes
            if f == 'len' and len(args) == 1 and isinstance(args[0], V):
                n = len(args[0].items); return S(f'({n} : Int)', const=n)
            if f in ('max', 'min', 'np.max', 'np.min'):
                if len(args) == 1 and isinstance(args[0], V): args = args[0].items
                if len(args) != 2 or not all(isinstance(a, S) for a in args): raise Refuse('max/min need two ints')
                return S(f'({f.split(".")[-1]} {args[0].e} {args[1].e})')
            if f == 'slice' and len(args) == 2: return V(args)
            if f == 'np.array_equal' and len(args) == 2:
                strip = lambda v: V(v.items) if isinstance(v, V) else v
                return self.cmp('==', strip(args[0]), strip(args[1]))
            if f == 'any' and len(args) == 1 and isinstance(args[0], V) and args[0].items and all(isinstance(x, B) for x in args[0].items):
                return B('(' + ' || '.join(x.e for x in args[0].items) + ')')
            if f == 'np.all' and len(args) == 1:
                a = args[0]
                if isinstance(a, B): return a
                if isinstance(a, V) and all(isinstance(x, B) for x in a.items):
                    return B('(' + ' && '.join(x.e for x in a.items) + ')')
                raise Refuse('np.all')
            short = f.split('.')[-1]
            if short in self.all_sigs:
                sig = self.all_sigs[short]
                flat = []
                kinds = [k for _, k in sig['params'] if k != 'none' and not (isinstance(k, tuple) and k[0] == 'const')]
                if len(args) != len(kinds): raise Refuse(f'call arity {f}')
                for a in args: flat += [l.e for l in leaves(a)]
                ret = self.rets.get(short)
                if ret is None: raise Refuse(f'{f} used before its definition')
                call = '(' + camel(short) + ' ' + ' '.join(flat) + ')' if flat else camel(short)
                return self.rebuild(call, ret)
            raise Refuse(f'call to {f}')
        raise Refuse(f'expression {type(e).__name__}')

    def rebuild(self, call, ret):
        """value of a call expression with the shape of `ret`: project components"""
        if isinstance(ret, (S, B)): return type(ret)(call)
        if isinstance(ret, O): return O(call, ret.inner)
        if isinstance(ret, V):
            n = len(ret.items)
            out = []
            for i, x in enumerate(ret.items):
                # nested right-associated products: a × b × c = (a, (b, c))
                proj = call
                for _ in range(i): proj = f'{proj}.2'
                if i < n - 1: proj = f'{proj}.1'
                out.append(self.rebuild(proj, x))
            return V(out)
        raise Refuse('rebuild')

    # -- statements
    def assigned(self, stmts):
        out = []
        for st in stmts:
            if isinstance(st, ast.Assign):
                for t in st.targets:
                    for n in ([t] if isinstance(t, ast.Name) else t.elts if isinstance(t, ast.Tuple) else []):
                        if isinstance(n, ast.Name) and n.id not in out: out.append(n.id)
            elif isinstance(st, ast.AugAssign) and isinstance(st.target, ast.Name):
                if st.target.id not in out: out.append(st.target.id)
            elif isinstance(st, ast.If):
                for n in self.assigned(st.body) + self.assigned(st.orelse):
                    if n not in out: out.append(n)
        return out

    def has_exit(self, stmts):
        return any(isinstance(n, (ast.Return, ast.Raise)) for st in stmts for n in ast.walk(st))

    def bind(self, name, val, env, ind, lines):
        if isinstance(val, (NoneV, Obj, Str)):
            env[name] = val; return
        nm = flat_names(name, val)
        for n, v in zip(leaves(nm), leaves(val)):
            lines.append(f'{ind}let {n.e} := {v.e}')
        # keep constants known
        for n, v in zip(leaves(nm), leaves(val)):
            if isinstance(v, (S, B)): n.const = v.const
        env[name] = nm

    def emit_ret(self, rv):
        self.ret_shape_candidates.append(rv)
        if self.ret_option is not None and isinstance(rv, V):
            v = 'none' if not rv.items else f'(some {lean_val(rv)})'
        else:
            v = lean_val(rv)
        if self.has_raise: v = f'(Except.ok {v})'
        return v

    def block(self, stmts, env, ind, final):
        """translate a statement list to a Lean term (string) that yields the function's value.
        `final`: callable(env) -> SVal giving the value when the list runs off its end (block extraction) or None."""
        lines = []
        env = dict(env)
        for i, st in enumerate(stmts):
            rest = stmts[i + 1:]
            if isinstance(st, ast.Expr) and isinstance(st.value, ast.Constant) and isinstance(st.value.value, str):
                continue
            if isinstance(st, ast.Pass): continue
            if isinstance(st, ast.Assign):
                if len(st.targets) != 1: raise Refuse('multiple assignment targets')
                val = self.expr(st.value, env)
                tg = st.targets[0]
                if isinstance(tg, ast.Name):
                    self.bind(tg.id, val, env, ind, lines)
                elif isinstance(tg, ast.Tuple):
                    if not isinstance(val, V) or len(val.items) != len(tg.elts): raise Refuse('tuple unpacking arity')
                    # evaluate all right-hand sides before binding (Python semantics): bind to temporaries first
                    tmp = []
                    for k, (n, v) in enumerate(zip(tg.elts, val.items)):
                        if not isinstance(n, ast.Name): raise Refuse('unpack target')
                        t = f'tmp{len(lines)}_{k}'
                        self.bind(t, v, env, ind, lines); tmp.append(t)
                    for n, t in zip(tg.elts, tmp):
                        self.bind(n.id, env[t], env, ind, lines)
                else:
                    raise Refuse('assignment target')
                continue
            if isinstance(st, ast.AugAssign):
                if not isinstance(st.target, ast.Name): raise Refuse('augmented target')
                ops = {ast.Add: '+', ast.Sub: '-', ast.Mult: '*', ast.FloorDiv: '//'}
                if type(st.op) not in ops: raise Refuse('augmented operator')
                val = self.arith(ops[type(st.op)], self.expr(st.target, env), self.expr(st.value, env))
                self.bind(st.target.id, val, env, ind, lines)
                continue
            if isinstance(st, ast.If):
                c = self.expr(st.test, env)
                if not isinstance(c, B): raise Refuse('if on non-bool')
                if c.const is not None:     # statically decided (recorded as specialisation when it came from a param kind)
                    chosen = st.body if c.const else st.orelse
                    self.folded.append(ast.unparse(st.test) + ' = ' + str(c.const))
                    return '\n'.join(lines + [self.block(list(chosen) + list(rest), env, ind, final)])
                if self.has_exit(st.body) or self.has_exit(st.orelse):
                    a = self.block(list(st.body) + list(rest), env, ind + '  ', final)
                    b = self.block(list(st.orelse) + list(rest), env, ind + '  ', final)
                    return '\n'.join(lines + [f'{ind}if {c.e} then\n{a}\n{ind}else\n{b}'])
                names = self.assigned([st])
                ea, la = self.side(st.body, env, ind + '    ')
                eb, lb = self.side(st.orelse, env, ind + '    ')
                live = []
                for n in names:
                    va, vb = ea.get(n), eb.get(n)
                    if va is None or vb is None: continue      # defined on one side only and not before: not visible after
                    live.append(n)
                if not live: raise Refuse('if without effect')
                joined = []
                for n in live:
                    va, vb = ea[n], eb[n]
                    if same_shape(va, vb): joined.append((n, va, vb, None))
                    elif isinstance(va, V) and isinstance(vb, V) and (not va.items or not vb.items):
                        full = va if va.items else vb
                        ty = lean_ty(full)
                        oa = O('none', ty) if not va.items else O(f'(some {lean_val(va)})', ty)
                        ob = O('none', ty) if not vb.items else O(f'(some {lean_val(vb)})', ty)
                        joined.append((n, oa, ob, ty))
                    else: raise Refuse(f'branches give different shapes to {n}')
                pat = V([flat_names(x[0], x[1]) for x in joined])
                fa = [l.e for x in joined for l in leaves(x[1])]
                fb = [l.e for x in joined for l in leaves(x[2])]
                fp = [l.e for l in leaves(pat)]
                tup = lambda xs: xs[0] if len(xs) == 1 else '(' + ', '.join(xs) + ')'
                body_a = '\n'.join(la + [f'{ind}    {tup(fa)}'])
                body_b = '\n'.join(lb + [f'{ind}    {tup(fb)}'])
                lines.append(f'{ind}let {tup(fp)} :=\n{ind}  if {c.e} then\n{body_a}\n{ind}  else\n{body_b}')
                for (n, va, vb, ty), p in zip(joined, pat.items):
                    env[n] = p
                continue
            if isinstance(st, ast.Return):
                if st.value is None: raise Refuse('bare return')
                rv = None
                if self.sig.get('ret_override'): rv = self.sig['ret_override'](self, st, env)
                if rv is None: rv = self.expr(st.value, env)
                return '\n'.join(lines + [f'{ind}{self.emit_ret(rv)}'])
            if isinstance(st, ast.Raise):
                name = ast.unparse(st.exc.func) if isinstance(st.exc, ast.Call) else ast.unparse(st.exc)
                return '\n'.join(lines + [f'{ind}(Except.error "{name}")'])
            raise Refuse(f'statement {type(st).__name__}: {ast.unparse(st)[:60]}')
        if final is None: raise Refuse('function can fall off its end')
        rv = final(env)
        return '\n'.join(lines + [f'{ind}{self.emit_ret(rv)}'])

    def side(self, stmts, env, ind):
        """translate a branch without exits: returns (env after, lines)"""
        lines = []
        marker = object()
        sub = FnTranslator.__new__(FnTranslator); sub.__dict__ = self.__dict__
        holder = {}
        def final(e):
            holder['env'] = e
            return V([])
        saved = self.ret_shape_candidates
        self.ret_shape_candidates = []
        txt = self.block(list(stmts), env, ind, final)
        self.ret_shape_candidates = saved
        body = txt.split('\n')
        body = body[:-1]      # drop the unit value line
        return holder['env'], [l for l in body if l.strip()]

    def translate(self):
        self.folded = []
        self.ret_shape_candidates = []
        if not hasattr(self, 'ret_option'): self.ret_option = None
        env, names = self.params()
        self.param_names = names
        stmts = list(self.fn.body)
        final = None
        block = self.sig.get('block')
        if block:
            stmts, final = block(self, stmts)
        self.has_raise = any(isinstance(n, ast.Raise) for st in stmts for n in ast.walk(st))
        body = self.block(stmts, env, '  ', final)
        shapes = self.ret_shape_candidates
        if not shapes: raise Refuse('no return value')
        ret = shapes[0]
        if self.ret_option is None and all(isinstance(x, V) for x in shapes) and any(not x.items for x in shapes) \
                and any(x.items for x in shapes):
            full = [x for x in shapes if x.items]
            if not all(same_shape(full[0], x) for x in full): raise Refuse('returns of different shapes')
            self.ret_option = lean_ty(full[0])
            return self.translate()
        if self.ret_option is not None:
            ret = O('?', self.ret_option)
        else:
            for s in shapes[1:]:
                if not same_shape(ret, s): raise Refuse('returns of different shapes')
        ty = lean_ty(ret)
        if self.has_raise: ty = f'(Except String {ty})'
        lname = self.sig.get('lean_name') or camel(self.fn.name)
        head = f'def {lname}' + (f' ({" ".join(names)} : Int)' if names else '') + f' : {ty} :='
        return lname, head + '\n' + body + '\n', ret


META = []   # filled by translate_functions: one record per translated function (used by the translator self-check)

def translate_functions(path, sigs, namespace, header=''):
    """sigs: ordered dict python-function-name -> {'params': [(name, kind)...], optional 'block', 'lean_name'}"""
    src = open(path).read()
    mod = ast.parse(src)
    fns = {}
    for node in ast.walk(mod):
        if isinstance(node, ast.FunctionDef) and node.name in sigs and node.name not in fns:
            fns[node.name] = node
    out, rets, notes = [], {}, []
    for name, sig in sigs.items():
        pyname = sig.get('py_name', name)
        if pyname not in fns:
            for node in ast.walk(mod):
                if isinstance(node, ast.FunctionDef) and node.name == pyname: fns[pyname] = node; break
        if pyname not in fns: raise Refuse(f'{path}: function {pyname} not found')
        fns[name] = fns[pyname]
        t = FnTranslator(None, fns[name], sig, sigs, rets)
        try:
            lname, text, ret = t.translate()
        except Refuse as e:
            raise Refuse(f'{os.path.basename(path)}:{name}: {e}')
        rets[name] = ret
        META.append({'py': pyname, 'lean': lname, 'params': list(t.param_names), 'sig': sig, 'path': path,
                     'block': bool(sig.get('block')) or bool(sig.get('call_as'))})
        out.append(f'/-- translated from `{os.path.basename(path)}:{name}` (line {fns[name].lineno}) -/\n' + text)
        if t.specialised or t.folded:
            notes.append(f'{name}: specialised {t.specialised}, statically folded {t.folded}')
    return out, notes


def write_if_changed(path, text):
    os.makedirs(os.path.dirname(path), exist_ok=True)
    if os.path.exists(path) and open(path).read() == text: return False
    open(path, 'w').write(text)
    return True


def sha(path):
    return hashlib.sha256(open(path, 'rb').read()).hexdigest()
