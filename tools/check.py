#!/usr/bin/env python3
"""check.py <Cnn> [--tier quick|thorough] [--replay FILE]

Decides one property (DESIGN.md §3):
  1. regenerate lean/LentilVerif/Gen/*.lean from the repository's working tree (translator tie);
  2. build the property's theorems (lake) and audit them (#print axioms, forbidden tokens);
  3. correspondence: run the implementation and the Lean model on the same generated cases and compare;
  4. if 1-3 are clean (and the direct oracle saw no violation) -> evidence, exit 0;
  5. otherwise search the implementation for a concrete failing input (the property's own statement evaluated on the
     real code) -> VIOLATION with that replay, or VIOLATION ... no-failing-input-found.
Exit codes: 0 held, 1 VIOLATION, 2 infrastructure failure / time-out (never reported as a violation)."""
import argparse, importlib, json, os, subprocess, sys, time, traceback
HERE = os.path.dirname(os.path.abspath(__file__))
sys.path.insert(0, HERE)
import vlib, gen
from vlib import VERIF, LEAN, REPO, OUT

def load_findings():
    p = os.path.join(VERIF, 'known_findings.json')
    if not os.path.exists(p): return {'findings': [], 'fixed': []}
    return json.load(open(p))

def main():
    ap = argparse.ArgumentParser()
    ap.add_argument('prop')
    ap.add_argument('--tier', default=os.environ.get('VERIF_TIER', 'quick'), choices=['quick', 'thorough'])
    ap.add_argument('--replay')
    ap.add_argument('--no-build', action='store_true', help='(development) skip lake build')
    args = ap.parse_args()
    prop = args.prop.upper()
    _sv = (os.environ.get('VERIF_SEED') or '0').strip()
    try: seed = abs(int(_sv))                       # any integer; a negative one is used by magnitude
    except ValueError:                              # anything else: a stable hash of the text, so the run is still reproducible
        import zlib; seed = zlib.crc32(_sv.encode())
    t0 = time.time()
    try:
        H = importlib.import_module(f'harness.{prop.lower()}')
    except ModuleNotFoundError as e:
        print(f'no harness for {prop}: {e}'); return 2
    import numpy as np
    rng = np.random.default_rng([seed, int(prop[1:])])
    try:
        vlib.import_lentil()
    except Exception as e:
        # the implementation does not even import: every property is unshown, but there is no input to replay
        return finish_violation(prop, args, seed, t0, H, broken={'implementation': [f'import failed: {e!r}'[:400]]},
                                failing=None, stats={})

    if args.replay:
        return replay(prop, H, args.replay)

    broken = {'translator': [], 'pins': [], 'theorems': [], 'audit': [], 'correspondence': [], 'oracle': []}
    stats = {'tally': vlib.Tally()}

    # ---- 1. translator
    genrep = gen.generate(REPO)
    # every Gen module in the import closure of the property's theorems and of its driver ops is part of its tie
    # (the harness GEN list is the builder's own statement of it; the closure is computed from the Lean files)
    closure = set(getattr(H, 'GEN', []))
    for m_ in [f'LentilVerif.Props.{prop}'] + [f'Driver.Ops.{o}' for o in getattr(H, 'OPS', [prop])]:
        for dep in vlib.lean_deps(m_):
            if dep.startswith('LentilVerif.Gen.'): closure.add(dep.split('.')[-1])
    # ... restricted to modules regenerated from source files this property is anchored in or pins, so that a
    # refusal in an unrelated module (reachable only through shared Lean imports) is not this property's alarm
    relevant = set()
    try:
        for l in open(os.path.join(VERIF, 'properties.jsonl')):
            pj = json.loads(l)
            if pj['id'] == prop: relevant |= set(pj['anchors'].get('files', []))
        pf = os.path.join(HERE, 'pins', f'{prop}.json')
        if os.path.exists(pf): relevant |= set(json.load(open(pf)).keys())
    except Exception:
        pass
    declared = set(getattr(H, 'GEN_STRICT', []))          # modules a harness insists on regardless of the source file
    mine = {k: v for k, v in genrep.items()
            if k in closure and (prop in v.get('props', []) or v['src'] in relevant or k in declared or not relevant
                                 or (k in getattr(H, 'GEN', []) and v['src'] == 'lentil/__init__.py'))}
    for k, v in mine.items():
        if not v['ok']: broken['translator'].append(f"Gen/{k}.lean from {v['src']}: {v['refused']}")
    # a refusal in a module this property does not import is not this property's business
    stats['gen'] = {k: {'src': v['src'], 'sha256': v.get('sha256'), 'ok': v['ok'], 'notes': v.get('notes')} for k, v in mine.items()}
    if not args.no_build:
        import transcheck
        try:
            nev, bad = transcheck.selfcheck(genrep, list(mine), np.random.default_rng([seed, 31337]), 150 if args.tier == 'quick' else 4000)
        except Exception as e:
            nev, bad = 0, [f'translator self-check crashed: {type(e).__name__}: {e}'[:300]]
        stats['translator_selfcheck_evaluations'] = nev
        for b_ in bad: broken['translator'].append('translator self-check: ' + b_)

    # ---- 1b. source-skeleton pins of the hand-modelled functions (tools/pins.py)
    import pins
    try:
        pin_bad = pins.check(prop, REPO)
    except Exception as e:
        pin_bad = [f'pin check crashed: {type(e).__name__}: {e}'[:300]]
    for b_ in pin_bad: broken['pins'].append(b_)
    stats['pinned_functions'] = sum(len(v) for v in json.load(open(os.path.join(HERE, 'pins', f'{prop}.json'))).values()) \
        if os.path.exists(os.path.join(HERE, 'pins', f'{prop}.json')) else 0

    # ---- 2. build + audit
    module = f'LentilVerif.Props.{prop}'
    pfile = os.path.join(LEAN, 'LentilVerif', 'Props', f'{prop}.lean')
    thms = vlib.theorems_in(pfile)
    ops = getattr(H, 'OPS', [prop])
    drv_mod, _ = vlib.write_driver(prop, ops)
    discharged, axioms = [], {}
    driver_ok = True
    if not args.no_build:
        b = vlib.lake_build([module, drv_mod])
        stats['build_s'] = b['wall_s']
        if not b['ok']:
            # which theorems are hit?
            rel = os.path.relpath(pfile, LEAN)
            mine_err = [e for e in b['errors'] if e['file'].endswith(rel)]
            other = [e for e in b['errors'] if not e['file'].endswith(rel)]
            bad = set()
            for e in mine_err:
                hit = [n for (n, a, z) in thms if a <= e['line'] <= z]
                for n in hit: bad.add(n)
                broken['theorems'].append(f"{hit[0] if hit else rel}: {rel}:{e['line']}: {e['msg']}")
            dep_err = [e for e in other if not e['file'].startswith('Driver/')]
            drv_err = [e for e in other if e['file'].startswith('Driver/')]
            if dep_err or (not mine_err and not drv_err):
                for e in dep_err: broken['theorems'].append(f"dependency {e['file']}:{e['line']}: {e['msg']}")
                if not b['errors']: broken['theorems'].append('lake build failed: ' + b['log'][-600:])
                bad = {n for (n, _, _) in thms}
            if not drv_err:
                # lake may have stopped before (re)building the driver: never run the model on stale object files
                b2 = vlib.lake_build([drv_mod])
                if not b2['ok']:
                    driver_ok = False
                    broken['correspondence'].append('model driver could not be rebuilt (a module it imports no longer compiles)')
            if drv_err:
                driver_ok = False
                for e in drv_err: broken['correspondence'].append(f"model driver does not build: {e['file']}:{e['line']}: {e['msg']}")
            discharged = [n for (n, _, _) in thms if n not in bad]
            # theorems not hit by an error in a file that failed are "not re-checked" only if the file failed before
            # reaching them; Lean elaborates the whole file and reports every failing declaration, so they stand.
            if bad and len(bad) < len(thms):
                pass
        else:
            discharged = [n for (n, _, _) in thms]
        if b['ok'] or not broken['theorems']:
            ax, log = vlib.print_axioms(prop, module, [n for n in discharged]) if b['ok'] else ({}, '')
            axioms = ax
            for n in list(discharged):
                if b['ok'] and n not in ax:
                    broken['audit'].append(f'{n}: #print axioms gave no answer'); discharged.remove(n)
                elif n in ax and not set(ax[n]) <= vlib.STD_AXIOMS:
                    broken['audit'].append(f'{n}: non-standard axioms {sorted(set(ax[n]) - vlib.STD_AXIOMS)}'); discharged.remove(n)
        if args.tier == 'thorough' and b['ok']:
            # independent kernel re-check of this property's modules (and of every project module they import)
            mods = [m for m in vlib.lean_deps(module) if m.startswith('LentilVerif')]
            try:
                ok, secs, tail = vlib.leanchecker(mods)
            except subprocess.TimeoutExpired:
                ok, secs, tail = None, -1, 'leanchecker timed out (not counted)'
            stats['leanchecker'] = {'modules': len(mods), 'ok': ok, 'wall_s': secs, 'note': (tail[-200:] if ok is not True else '')}
            if ok is False: broken['audit'].append('leanchecker rejected the compiled modules: ' + tail[-300:])
            elif ok is None: print('note: leanchecker inconclusive (not counted): ' + tail[-160:])
        deps = vlib.lean_deps(module)
        hits = vlib.forbidden_tokens([p for m, p in deps.items() if m.startswith('LentilVerif')])
        for h in hits: broken['audit'].append('forbidden token: ' + h)
        if hits: discharged = []
    else:
        discharged = [n for (n, _, _) in thms]
    stats['theorems'] = [{'name': n, 'axioms': axioms.get(n)} for (n, _, _) in thms]

    # ---- 3. correspondence (+ direct oracle on every case)
    cases = []
    corpus_dir = os.path.join(HERE, 'corpus', prop)
    if os.path.isdir(corpus_dir):
        for fn in sorted(os.listdir(corpus_dir)):
            if fn.endswith('.json'):
                c = json.load(open(os.path.join(corpus_dir, fn))); c['_corpus'] = fn; cases.append(c)
    ncorpus = len(cases)
    cases += list(H.generate(rng, args.tier))
    stats['corpus'] = ncorpus
    failing = None            # (case, message) of a concrete property violation on the real code
    known_hits = []
    findings = load_findings()
    sigs, nontrivial = set(), set()
    impl_outs, reqs, spans = [], [], []
    for c in cases:
        try:
            io = H.impl(c)
        except Exception as e:
            io = {'_harness_exc': f'{type(e).__name__}: {e}', '_tb': traceback.format_exc()[-800:]}
        impl_outs.append(io)
        r = H.requests(c, io) if driver_ok else []
        spans.append((len(reqs), len(reqs) + len(r))); reqs += r
        s = H.signature(c); sigs.add(s)
        if H.nontrivial(c): nontrivial.add(s)
        for k in H.tags(c): stats['tally'].hit(k)
    model_outs = None
    if driver_ok:
        try:
            model_outs = vlib.run_model(prop, reqs)
        except Exception as e:
            broken['correspondence'].append(f'model driver failed to run: {e}'[:800])
    disagreements = []
    oracle_fail = []
    for i, (c, io) in enumerate(zip(cases, impl_outs)):
        if '_harness_exc' in io:
            # the implementation raised something the harness does not expect on a valid input
            oracle_fail.append((c, 'implementation raised unexpectedly: ' + io['_harness_exc']))
            continue
        if model_outs is not None:
            a, z = spans[i]
            try:
                d = H.compare(c, io, model_outs[a:z])
            except Exception as e:
                d = f'compare crashed: {type(e).__name__}: {e}'
            if d: disagreements.append((c, d))
        try:
            o = H.oracle(c, io)
        except Exception as e:
            o = f'oracle crashed: {type(e).__name__}: {e}'
        if o: oracle_fail.append((c, o))
    for c, d in disagreements[:20]:
        broken['correspondence'].append(f"case {vlib.jhash(strip(c))}: {d}"[:500])
    stats['evaluations'] = len(cases)
    stats['distinct'] = len(sigs)
    stats['distinct_nontrivial'] = len(nontrivial)
    stats['samples'] = [strip(c) for c in cases[ncorpus:ncorpus + 3]] + [strip(c) for c in cases[:min(ncorpus, 2)]]
    stats['disagreements'] = len(disagreements)

    # ---- 4./5. verdict
    tie_broken = any(broken[k] for k in ('translator', 'pins', 'theorems', 'audit', 'correspondence'))
    unknown_viol = []
    for c, msg in oracle_fail:
        kf = match_finding(H, findings, prop, c, msg)
        if kf: known_hits.append((kf, msg))
        else: unknown_viol.append((c, msg))
    if tie_broken and not unknown_viol:
        # failing-input search: deeper sweep of the direct oracle on the real code, disagreements first
        sweep = [c for c, _ in disagreements] + list(H.generate(np.random.default_rng([seed, 977, int(prop[1:])]), 'search'))
        for c in sweep:
            try:
                io = H.impl(c)
                o = H.oracle(c, io) if '_harness_exc' not in io else None
            except Exception as e:
                o = None
            stats['tally'].hit('search_cases')
            if o:
                kf = match_finding(H, findings, prop, c, o)
                if kf: known_hits.append((kf, o)); continue
                unknown_viol.append((c, o)); break
    seen = set()
    for kf, msg in known_hits:
        if kf['id'] in seen: continue
        seen.add(kf['id'])
        print(f"KNOWN-FINDING: property={prop} {kf['what']}")
    for kf in findings.get('findings', []):
        # open findings are replayed on every run; one that no longer reproduces is reported (not an alarm)
        if kf.get('property') == prop and kf.get('status') == 'open' and kf['id'] not in seen and hasattr(H, 'replay_finding'):
            r = H.replay_finding(kf)
            if r: print(f"KNOWN-FINDING: property={prop} {kf['what']}"); seen.add(kf['id'])
            else: print(f"note: known finding {kf['id']} no longer reproduces")
    stats['known_findings_hit'] = sorted(seen)
    if unknown_viol:
        c, msg = unknown_viol[0]
        c = shrink(H, c)
        return finish_violation(prop, args, seed, t0, H, broken, (c, msg), stats, thms, discharged)
    if tie_broken:
        return finish_violation(prop, args, seed, t0, H, broken, None, stats, thms, discharged)
    write_evidence(prop, args, seed, t0, H, stats, thms, discharged, violations=0)
    print(f'{prop}: held — {len(discharged)}/{len(thms)} theorems checked, {len(cases)} correspondence cases '
          f'({len(nontrivial)} distinct non-trivial), {time.time() - t0:.1f}s')
    return 0


def strip(c):
    return {k: v for k, v in c.items() if not k.startswith('_')}

def shrink(H, c):
    if not hasattr(H, 'shrink'): return c
    try:
        for _ in range(200):
            progressed = False
            for c2 in H.shrink(c):
                io = H.impl(c2)
                if '_harness_exc' not in io and H.oracle(c2, io):
                    c = c2; progressed = True; break
            if not progressed: break
    except Exception:
        pass
    return c

def match_finding(H, findings, prop, case, msg):
    for kf in findings.get('findings', []):
        if kf.get('property') != prop or kf.get('status') != 'open': continue
        if hasattr(H, 'matches_finding') and H.matches_finding(kf, case, msg): return kf
    return None

def write_evidence(prop, args, seed, t0, H, stats, thms, discharged, violations):
    os.makedirs(os.path.join(OUT, 'evidence'), exist_ok=True)
    ev = {
        'property_id': prop, 'tier': args.tier, 'seed': seed, 'level': 'proof',
        'coverage': {
            'obligations': len(thms), 'discharged': len(discharged),
            'checker_cmd': f'cd lean && lake build LentilVerif.Props.{prop} && lake env lean .lake/audit/Audit_{prop}.lean  (#print axioms)',
            'trusted_base': list(getattr(H, 'TRUSTED', [])) + [
                'Lean 4.33.0 kernel; Mathlib v4.33.0 as compiled in /opt/veriftools/mathlib4',
                'axioms allowed: propext, Classical.choice, Quot.sound (audited per theorem on this run)',
                'tools/py2lean.py subset semantics (translator) and tools/harness correspondence generators',
                'IEEE-754 double arithmetic of NumPy and of Lean `Float` in the driver: rounding is not modelled; model and implementation are compared within stated tolerances, the theorems are about exact reals/rationals/integers'],
            'theorems': stats.get('theorems', []),
            'unproven_clauses': list(getattr(H, 'UNPROVEN', [])),
            'translated_sources': stats.get('gen', {}),
            'translator_selfcheck_evaluations': stats.get('translator_selfcheck_evaluations', 0),
            'translator_selfcheck_note': 'counts only functions translated whole by py2lean with integer arguments (evaluated in Lean and in Python on the same integers); '
                                         'fragments emitted by spec generators (tools/specs) are consumed by the model and exercised by the correspondence cases instead',
            'pinned_functions': stats.get('pinned_functions', 0),
            'evaluations': stats.get('evaluations', 0),
            'distinct_nontrivial': stats.get('distinct_nontrivial', 0),
            'distinct': stats.get('distinct', 0),
            'rule': getattr(H, 'RULE', ''),
            'samples': stats.get('samples', [])[:5],
            'input_distribution': dict(stats.get('tally', {})),
            'corpus_cases': stats.get('corpus', 0),
            'disagreements': stats.get('disagreements', 0),
            'known_findings_hit': stats.get('known_findings_hit', []),
            'build_s': stats.get('build_s'),
            'leanchecker': stats.get('leanchecker'),
            'exhaustive': False,
        },
        'assumptions': list(getattr(H, 'ASSUMPTIONS', [])),
        'wall_s': round(time.time() - t0, 2),
        'violations': violations,
    }
    json.dump(ev, open(os.path.join(OUT, 'evidence', f'{prop}.json'), 'w'), indent=1, default=str)

def finish_violation(prop, args, seed, t0, H, broken, failing, stats, thms=(), discharged=()):
    os.makedirs(os.path.join(OUT, 'replays'), exist_ok=True)
    rep = {'property': prop, 'seed': seed, 'tier': args.tier, 'broken': {k: v for k, v in broken.items() if v}}
    if failing:
        c, msg = failing
        rep.update({'kind': 'failing-input', 'case': strip(c), 'observed': msg})
    else:
        rep.update({'kind': 'no-failing-input-found'})
    name = f"replays/{prop}-{vlib.jhash(rep)}.json"
    json.dump(rep, open(os.path.join(OUT, name), 'w'), indent=1, default=str)
    try:
        write_evidence(prop, args, seed, t0, H, stats, list(thms), list(discharged), violations=1)
    except Exception:
        pass
    for k, v in rep['broken'].items():
        for line in v[:6]: print(f'  broken {k}: {line}'[:400])
    if failing: print(f'  failing input: {failing[1]}'[:600])
    print(f'VIOLATION property={prop} replay={name}' + ('' if failing else ' no-failing-input-found'))
    return 1

def replay(prop, H, path):
    rep = json.load(open(path if os.path.isabs(path) else os.path.join(OUT, path)))
    if rep.get('kind') != 'failing-input':
        print(f'{path}: no concrete input recorded; broken obligations were: {json.dumps(rep.get("broken"))[:800]}')
        print('re-run the check itself to see whether they still fail'); return 2
    c = rep['case']
    io = H.impl(c)
    msg = ('implementation raised unexpectedly: ' + io['_harness_exc']) if '_harness_exc' in io else H.oracle(c, io)
    if msg:
        print(f'still fails: {msg}'); print(f'VIOLATION property={prop} replay={path}'); return 1
    print('replay passes on the current tree'); return 0

if __name__ == '__main__':
    try:
        rc = main()
    except subprocess.TimeoutExpired as e:
        print(f'infrastructure: time-out: {e}'); rc = 2
    except Exception as e:
        traceback.print_exc(); print(f'infrastructure failure: {type(e).__name__}: {e}'); rc = 2
    sys.exit(rc)
