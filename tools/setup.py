#!/usr/bin/env python3
"""MANIFEST.setup_cmd: regenerate Gen/ from /repo, write the per-property drivers and build everything once."""
import importlib, os, subprocess, sys
HERE = os.path.dirname(os.path.abspath(__file__)); sys.path.insert(0, HERE)
import vlib, gen
rep = gen.generate(vlib.REPO)
bad = {k: v['refused'] for k, v in rep.items() if not v['ok']}
if bad: print('translator refusals (reported by the checks that depend on them):', bad)
targets = []
for fn in sorted(os.listdir(os.path.join(HERE, 'harness'))):
    if fn.startswith('c') and fn.endswith('.py') and fn[1:3].isdigit():
        prop = fn[:-3].upper()
        if not os.path.exists(os.path.join(vlib.LEAN, 'LentilVerif', 'Props', prop + '.lean')): continue
        H = importlib.import_module('harness.' + fn[:-3])
        mod, _ = vlib.write_driver(prop, getattr(H, 'OPS', [prop]))
        targets += [f'LentilVerif.Props.{prop}', mod]
p = subprocess.run(['lake', 'build'] + targets, cwd=vlib.LEAN)
# a failing build here is not fatal for setup: each check rebuilds and reports for its own property
print('setup build exit', p.returncode)
sys.exit(0)
