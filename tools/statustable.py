#!/usr/bin/env python3
"""Write notes/status_table.md: per property — obligations (theorems in Props/Cnn.lean), `_partial` theorems, Gen modules,
pinned functions, open known findings, fixed defects, seeded changes caught — computed from the files, never typed."""
import ast, json, os, re, sys
HERE = os.path.dirname(os.path.abspath(__file__)); VERIF = os.path.dirname(HERE); sys.path.insert(0, HERE)
import vlib
kf = json.load(open(os.path.join(VERIF, 'known_findings.json')))
rows = []
tot = 0
for i in range(1, 21):
    p = f'C{i:02d}'
    thms = vlib.theorems_in(os.path.join(VERIF, 'lean', 'LentilVerif', 'Props', p + '.lean'))
    names = [t[0].split('.')[-1] for t in thms]
    partial = [n for n in names if n.endswith('_partial')]
    kfw = [n for n in names if n.startswith('kf_')]
    src = open(os.path.join(HERE, 'harness', p.lower() + '.py')).read()
    gen = []
    for node in ast.parse(src).body:
        if isinstance(node, ast.Assign) and getattr(node.targets[0], 'id', '') == 'GEN':
            try: gen = ast.literal_eval(node.value)
            except Exception: gen = ['(computed)']
    pins = json.load(open(os.path.join(HERE, 'pins', p + '.json'))) if os.path.exists(os.path.join(HERE, 'pins', p + '.json')) else {}
    npins = sum(len(v) for v in pins.values())
    openf = [f['id'] for f in kf['findings'] if f['property'] == p and f.get('status') == 'open']
    fixed = [f['commit'] for f in kf['fixed'] if f['property'] == p]
    seeds = [d for d in sorted(os.listdir(os.path.join(VERIF, 'seeded'))) if d.startswith(p + '-')]
    caught = 0
    for s in seeds:
        r = os.path.join(VERIF, 'seeded', s, 'result.json')
        if os.path.exists(r) and json.load(open(r)).get('caught'): caught += 1
    ev = {}
    try: ev = json.load(open(os.path.join(VERIF, 'evidence', p + '.json')))
    except Exception: pass
    tot += len(thms)
    rows.append(f"| {p} | {len(thms)} | {', '.join(partial) or '—'} | {', '.join(gen) or '—'} | {npins} | {', '.join(openf) or '—'} | {', '.join(fixed) or '—'} | {caught}/{len(seeds)} | "
                f"{ev.get('coverage', {}).get('evaluations', '?')} / {ev.get('wall_s', '?')} s |")
out = ['| property | obligations | `_partial` | Gen modules (regenerated) | pinned fns | open known findings | fixed defects | seeded caught | quick cases / wall |',
       '|---|---|---|---|---|---|---|---|---|'] + rows + ['', f'Total obligations: {tot}.']
open(os.path.join(VERIF, 'notes', 'status_table.md'), 'w').write('\n'.join(out) + '\n')
print(tot, 'theorems')
