#!/usr/bin/env python3
"""Source-skeleton pins (tie 3, DESIGN §0a): the hand-written part of each property's model was validated against a
particular version of the functions it mirrors.  For every such function we keep the SHA-256 of its *normalised AST*
(docstrings dropped, local names alpha-renamed, no line numbers — so comments, formatting, docstring edits and renaming
of locals do not matter, while a new branch, call, constant or operator does).  check.py recomputes the hashes from the
repository's working tree on every run; a mismatch means "the hand model is no longer known to describe this function":
the tie is broken and the failing-input search starts (a harmless rewrite then ends as `no-failing-input-found`, exactly
like a translator refusal).

  pins.py derive    print the function lists derived from the property anchors (original snapshot line ranges)
  pins.py update    recompute tools/pins/Cnn.json from VERIF_REPO (after the models were re-validated against new source)
  pins.py check Cnn list mismatches
"""
import ast, hashlib, json, os, re, subprocess, sys
HERE = os.path.dirname(os.path.abspath(__file__)); VERIF = os.path.dirname(HERE)
PINDIR = os.path.join(HERE, 'pins')
SNAPSHOT = '1f51a90'          # the commit the anchors' line numbers refer to

# functions the anchors do not name by line range but the hand models mirror (added by hand, see DESIGN §5a)
EXTRA = {
    'C01': {'lentil/fourier.py': ['dft2', 'idft2', '_dft2_matrices', '_dft2_coords']},
    'C02': {'lentil/propagate.py': ['propagate_dft', '_dft_alpha', '_mask_shape', '_mask_shift'], 'lentil/fourier.py': ['dft2', '_dft2_matrices', '_dft2_coords'],
            'lentil/wavefront.py': ['Wavefront.field', 'Wavefront.intensity'], 'lentil/util.py': ['boundary'],
            # the observation points Wavefront.field / Wavefront.intensity read the result through field.insert and field.reduce -> _reduce -> _disjoint -> _merge
            'lentil/field.py': ['insert', 'reduce', '_reduce', '_disjoint', '_merge', '_merge_shape', '_merge_slices', '_merge_offset', 'boundary']},
    'C03': {'lentil/extent.py': ['array_extent', 'intersect', 'intersection_slices', 'intersection_shift'], 'lentil/plane.py': ['Plane.shape', 'Plane.mask', 'Plane.multiply', '_plane_slice', 'TiltInterface.multiply', 'Tilt.__init__', 'Plane.fit_tilt', 'Pupil.multiply'], 'lentil/util.py': ['boundary'],
            'lentil/propagate.py': ['_dft_alpha', 'propagate_dft'], 'lentil/field.py': ['Field.shape', 'Field.size', 'Field.__init__', 'Field.__mul__', 'reduce', '_reduce', '_disjoint', '_merge', 'insert'],
            'lentil/fourier.py': ['dft2', '_dft2_matrices', '_dft2_coords'], 'lentil/wavefront.py': ['Wavefront.intensity', 'Wavefront.field', 'Wavefront.__mul__']},
    'C04': {'lentil/field.py': ['Field.shape', 'Field.size', 'Field.__init__', 'Field.__mul__', 'Field.shift', 'insert'], 'lentil/wavefront.py': ['Wavefront.field'], 'lentil/plane.py': ['Plane.fit_tilt', 'Plane.ptt_vector', 'Tilt.shift', 'Tilt.__init__', 'TiltInterface.multiply', 'DispersiveTilt.shift']},
    'C05': {'lentil/plane.py': ['Plane.shape', 'Plane.multiply', 'Plane.mask', 'Plane.__init__'], 'lentil/wavefront.py': ['Wavefront.__init__', 'Wavefront.field', 'Wavefront.intensity'],
            'lentil/util.py': ['normalize_power'], 'lentil/propagate.py': ['_fft2', 'propagate_fft', 'propagate_dft'], 'lentil/fourier.py': ['dft2', '_dft2_matrices']},
    'C06': {'lentil/field.py': ['Field.shape', 'Field.size', 'Field.__init__', 'Field.__mul__', 'Field._mul_scalar', 'Field._mul_array', '_mul_broadcast', 'insert', 'merge', '_merge', '_merge_shape', '_merge_slices',
                                '_merge_offset', 'boundary', 'overlap', 'reduce', '_reduce', '_disjoint']},
    'C07': {'lentil/extent.py': ['array_extent', 'intersect', 'intersection_slices', 'intersection_shift'], 'lentil/plane.py': ['Plane.shape', 'Plane.mask', 'Plane.amplitude', 'Plane.opd', 'Plane.multiply', '_mul_pixelscale', 'Pupil.multiply', 'Image.multiply', 'Plane.__init__', '_plane_slice', 'TiltInterface.multiply', 'Tilt.__init__'],
            'lentil/helper.py': ['boundary_slice', 'slice_offset'], 'lentil/util.py': ['boundary'], 'lentil/field.py': ['Field.shape', 'Field.size', 'Field.__init__', 'Field.__mul__', 'insert', 'reduce', '_reduce', '_disjoint', '_merge'], 'lentil/wavefront.py': ['Wavefront.field', 'Wavefront.intensity', 'Wavefront.insert', 'Wavefront.__mul__']},
    'C08': {'lentil/plane.py': ['Image.multiply', 'TiltInterface.multiply', 'Plane.__init__', 'Plane.multiply'], 'lentil/ptype.py': ['ptype']},
    'C09': {'lentil/propagate.py': ['propagate_fft', '_fft_shape', '_fft2', 'scratch_shape', '_has_tilt'], 'lentil/util.py': ['pad'],
            'lentil/field.py': ['insert'], 'lentil/wavefront.py': ['Wavefront.field']},      # the result is read through Wavefront.field -> field.insert
    'C10': {'lentil/detector.py': ['rule07_dark_current', 'dark_current', 'read_noise', 'shot_noise'], 'lentil/wfe.py': ['power_spectrum']},
    'C11': {'lentil/zernike.py': ['zernike', 'R', 'zernike_index', 'zernike_coordinates'], 'lentil/util.py': ['centroid'], 'lentil/helper.py': ['mesh']},
    'C12': {'lentil/zernike.py': ['zernike_fit', 'zernike_remove', 'zernike_compose', 'zernike_basis']},
    'C13': {'lentil/radiometry.py': ['Spectrum.__init__', 'Spectrum.__mul__', 'Spectrum.__add__', 'Spectrum.__sub__', 'Spectrum.__truediv__', 'Spectrum.__pow__', 'Spectrum.wave', 'Spectrum.value', 'Spectrum._ufunc', '_interp_common', '_sampling', '_intersect', 'Spectrum.sample', 'Spectrum.to', 'Spectrum.copy']},
    'C14': {'lentil/radiometry.py': ['Spectrum.copy', 'Spectrum.__init__', 'Spectrum.wave', 'Spectrum.value', 'Spectrum.waveunit', 'Spectrum.valueunit', 'Blackbody.sample_vegamag', 'Unit', 'Spectrum.to', 'planck_radiance', 'planck_exitance', 'vegaflux', 'Blackbody.__init__', 'Blackbody.sample', 'Blackbody.vegamag']},
    'C15': {'lentil/radiometry.py': ['Spectrum.__init__', 'Spectrum.copy', 'Spectrum.wave', 'Spectrum.value', '_sampling', 'Spectrum.integrate', 'Spectrum.bin', 'Spectrum.crop', 'Spectrum.trim', 'Spectrum.pad', 'Spectrum.append', 'Spectrum.resample', 'Spectrum.ends', 'Spectrum.sample']},
    'C16': {'lentil/radiometry.py': ['Spectrum.sample', 'Spectrum.to', 'Spectrum.copy', 'Spectrum.wave', 'Spectrum.value', 'Angstrom.to', 'Meter.to', 'Micron.to', 'Nanometer.to'], 'lentil/detector.py': ['collect_charge', 'collect_charge_bayer', 'adc', 'qe_asarray', 'format_bayer_string']},
    'C17': {'lentil/plane.py': ['Plane.amplitude', 'Plane.opd', 'Plane.mask', 'Plane.pixelscale', 'Plane.__init__', 'Plane.rescale', 'Plane.resample', 'Plane.copy'], 'lentil/util.py': ['rescale']},
    'C18': {'lentil/helper.py': ['gaussian2d'], 'lentil/detector.py': ['shot_noise', 'read_noise', 'dark_current', 'rule07_dark_current'], 'lentil/wfe.py': ['power_spectrum']},
    'C19': {'lentil/detector.py': ['pixel', 'pixelate'], 'lentil/convolvable.py': ['jitter', 'smear']},
    'C20': {'lentil/util.py': ['pad', 'subarray', 'boundary', 'rebin', 'centroid'], 'lentil/helper.py': ['mesh', 'boundary_slice', 'slice_offset'],
            'lentil/segmented.py': ['hex_segments', 'hex_ring', 'hex_to_rc']},
}


class _Norm(ast.NodeTransformer):
    def __init__(self): self.names = {}
    def _n(self, x):
        if x not in self.names: self.names[x] = f'v{len(self.names)}'
        return self.names[x]

def _locals_of(fn):
    loc = [a.arg for a in fn.args.args + fn.args.kwonlyargs + fn.args.posonlyargs]
    if fn.args.vararg: loc.append(fn.args.vararg.arg)
    if fn.args.kwarg: loc.append(fn.args.kwarg.arg)
    for n in ast.walk(fn):
        if isinstance(n, ast.Name) and isinstance(n.ctx, ast.Store) and n.id not in loc: loc.append(n.id)
    return loc

def normalised(fn):
    """canonical text of a function: docstring dropped, locals alpha-renamed (arguments keep their names: they are API)"""
    fn = ast.parse(ast.unparse(fn)).body[0]          # private copy
    if fn.body and isinstance(fn.body[0], ast.Expr) and isinstance(getattr(fn.body[0], 'value', None), ast.Constant) \
            and isinstance(fn.body[0].value.value, str):
        fn.body = fn.body[1:] or [ast.Pass()]
    args = {a.arg for a in fn.args.args + fn.args.kwonlyargs + fn.args.posonlyargs}
    if fn.name == '_module_level_':
        _drop_messages(fn); return ast.unparse(fn)
    ren = {}
    for n in _locals_of(fn):
        if n not in args: ren[n] = f'v{len(ren)}'
    for n in ast.walk(fn):
        if isinstance(n, ast.Name) and n.id in ren: n.id = ren[n.id]
    _drop_messages(fn)
    return ast.unparse(fn)       # canonical source text (run with /venv/bin/python, as the checks are)

def _drop_messages(fn):
    """the text of an error or warning message is not behaviour any property observes (the exception *type* is): the
    arguments of `raise X(...)` and of `warnings.warn(...)` are replaced by a placeholder"""
    for n in ast.walk(fn):
        if isinstance(n, ast.Raise) and isinstance(n.exc, ast.Call) and all(_is_text(a) for a in n.exc.args) and not n.exc.keywords:
            n.exc.args = [ast.Constant('msg')] if n.exc.args else []
        if isinstance(n, ast.Call) and ast.unparse(n.func) in ('warnings.warn', 'warn') and n.args and _is_text(n.args[0]):
            n.args[0] = ast.Constant('msg')

def _is_text(a):
    return isinstance(a, ast.JoinedStr) or (isinstance(a, ast.Constant) and isinstance(a.value, str))

def functions_in(src):
    """{qualified name: FunctionDef} for module-level functions and methods of module-level classes; the pseudo entry
    '<module>' wraps every module-level statement that is not a def, class, import or docstring (tables, constants,
    caches, rebindings such as `insert = _fast_insert`)"""
    out = {}
    tree = ast.parse(src)
    rest = [n for n in tree.body if not isinstance(n, (ast.FunctionDef, ast.AsyncFunctionDef, ast.ClassDef, ast.Import, ast.ImportFrom))
            and not (isinstance(n, ast.Expr) and isinstance(getattr(n, 'value', None), ast.Constant))]
    wrapper = ast.parse('def _module_level_():\n    pass').body[0]
    wrapper.body = rest or [ast.Pass()]
    out['<module>'] = ast.fix_missing_locations(wrapper)
    for node in tree.body:
        if isinstance(node, (ast.FunctionDef, ast.AsyncFunctionDef)): out[node.name] = node
        elif isinstance(node, ast.ClassDef):
            for m in node.body:
                if isinstance(m, (ast.FunctionDef, ast.AsyncFunctionDef)):
                    key = f'{node.name}.{m.name}'
                    if key in out:                                 # property getter + setter (+ deleter) share the name: pin them together
                        out[key] = (out[key] if isinstance(out[key], list) else [out[key]]) + [m]
                    else:
                        out[key] = m
    return out

def digest(fn):
    # `fn` may be a list of definitions sharing one qualified name (property getter + setter): hash them all
    fns = fn if isinstance(fn, list) else [fn]
    return hashlib.sha256('\n'.join(normalised(f) for f in fns).encode()).hexdigest()[:16]

def class_shapes(src):
    """{class name: 'bases | sorted method names'} — a new override (e.g. Blackbody.to) changes the shape of its class"""
    out = {}
    for node in ast.parse(src).body:
        if isinstance(node, ast.ClassDef):
            meths = sorted({m.name for m in node.body if isinstance(m, (ast.FunctionDef, ast.AsyncFunctionDef))})
            stmts = [ast.unparse(m) for m in node.body if not isinstance(m, (ast.FunctionDef, ast.AsyncFunctionDef, ast.Pass))
                     and not (isinstance(m, ast.Expr) and isinstance(getattr(m, 'value', None), ast.Constant))]
            # class-level statements (`__rmul__ = __mul__`, tables, nested classes) are part of the shape
            out[node.name] = ','.join(ast.unparse(b) for b in node.bases) + ' | ' + ' '.join(meths) + ' || ' + ' ; '.join(stmts)
    return out

def _refers(repo, name, path, cls):
    """is `name` referred to anywhere in the package other than by its own definition in class `cls` of `path`?
    (attribute access, bare name, string constant as used by getattr, keyword argument, or a definition of the same name
    in another class or at module level — an override or a shadowed attribute)"""
    pkg = os.path.join(repo, 'lentil')
    for f in sorted(os.listdir(pkg)):
        if not f.endswith('.py'): continue
        try: tree = ast.parse(open(os.path.join(pkg, f)).read())
        except (OSError, SyntaxError): return True
        own = set()
        if os.path.join('lentil', f) == path:
            for node in tree.body:
                if isinstance(node, ast.ClassDef) and node.name == cls:
                    own = {id(m) for m in node.body if isinstance(m, (ast.FunctionDef, ast.AsyncFunctionDef)) and m.name == name}
        for n in ast.walk(tree):
            if isinstance(n, ast.Attribute) and n.attr == name: return True
            if isinstance(n, ast.Name) and n.id == name: return True
            if isinstance(n, ast.Constant) and n.value == name: return True
            if isinstance(n, ast.keyword) and n.arg == name: return True
            if isinstance(n, (ast.FunctionDef, ast.AsyncFunctionDef, ast.ClassDef)) and n.name == name and id(n) not in own: return True
    return False

def _shape_change(repo, path, cls, old, new):
    """'' when the change of a class's bases/method set cannot affect existing behaviour: only additions of ordinary
    (non-dunder) methods that nothing in the package refers to.  Anything else — other bases, a removed method, a new
    special method (operators, __getattr__, __array_ufunc__ … change behaviour implicitly), a new method that some code
    already calls, overrides or shadows — is reported."""
    old, ost = (old.split(' || ', 1) + [''])[:2]; new, nst = (new.split(' || ', 1) + [''])[:2]
    if ost != nst: return 'has different class-level statements'
    ob, om = old.split(' | ', 1); nb, nm = new.split(' | ', 1)
    if ob != nb: return f'has different bases ({nb or "none"})'
    om, nm = set(om.split()), set(nm.split())
    if om - nm: return 'lost method(s) ' + ', '.join(sorted(om - nm))
    risky = [m for m in sorted(nm - om) if (m.startswith('__') and m.endswith('__')) or _refers(repo, m, path, cls)]
    if risky: return 'gained method(s) that existing code refers to, overrides or dispatches on: ' + ', '.join(risky)
    return ''

def _mro_classes(src, names):
    """the classes of the pinned methods plus every class deriving from them in the same file"""
    tree = ast.parse(src)
    want = {n.split('.')[0] for n in names if '.' in n}
    changed = True
    while changed:
        changed = False
        for node in tree.body:
            if isinstance(node, ast.ClassDef) and node.name not in want and any(ast.unparse(b).split('.')[-1] in want for b in node.bases):
                want.add(node.name); changed = True
    return want

def derive():
    """function lists from the anchors' `where` line ranges on the original snapshot, plus EXTRA"""
    props = [json.loads(l) for l in open(os.path.join(VERIF, 'properties.jsonl'))]
    res = {}
    for p in props:
        want = {}
        for m in p['anchors'].get('mechanism', []) + p['anchors'].get('state', []):
            for path, a, b in re.findall(r'(lentil/\w+\.py):(\d+)(?:-(\d+))?', m.get('where', '')):
                a = int(a); b = int(b or a)
                try: src = subprocess.run(['git', '-C', os.environ.get('VERIF_REPO', '/repo'), 'show', f'{SNAPSHOT}:{path}'], capture_output=True, text=True, check=True).stdout
                except Exception: continue
                for name, fn in functions_in(src).items():
                    for f1 in (fn if isinstance(fn, list) else [fn]):
                        if f1.lineno <= b and f1.end_lineno >= a: want.setdefault(path, set()).add(name)
        for path, names in EXTRA.get(p['id'], {}).items(): want.setdefault(path, set()).update(names)
        for path in list(want): want[path].add('<module>')
        if p['id'] == 'C08': want.setdefault('lentil/__init__.py', set()).add('<module>')
        res[p['id']] = {k: sorted(v) for k, v in sorted(want.items())}
    return res

def compute(repo, spec):
    out = {}
    for path, names in spec.items():
        fns = functions_in(open(os.path.join(repo, path)).read())
        src = open(os.path.join(repo, path)).read()
        out[path] = {n: (digest(fns[n]) if n in fns else None) for n in names}
        shapes = class_shapes(src)
        for c in sorted(_mro_classes(src, names)):
            if c in shapes: out[path]['class ' + c] = shapes[c]
    return out

def check(prop, repo):
    f = os.path.join(PINDIR, f'{prop}.json')
    if not os.path.exists(f): return []
    pinned = json.load(open(f))
    bad = []
    for path, names in pinned.items():
        try: fns = functions_in(open(os.path.join(repo, path)).read())
        except (OSError, SyntaxError) as e:
            bad.append(f'{path}: cannot be read/parsed ({type(e).__name__})'); continue
        shapes = class_shapes(open(os.path.join(repo, path)).read())
        for n, h in names.items():
            if n.startswith('class '):
                c = n[6:]
                if c not in shapes: bad.append(f'{path}:{n} no longer exists')
                elif shapes[c] != h:
                    why = _shape_change(repo, path, c, h, shapes[c])
                    if why: bad.append(f'{path}:{n} {why} (the hand model was validated against the former class)')
                continue
            if n not in fns: bad.append(f'{path}:{n} no longer exists')
            elif digest(fns[n]) != h: bad.append(f'{path}:{n} differs from the version the hand model was validated against')
    return bad

if __name__ == '__main__':
    cmd = sys.argv[1] if len(sys.argv) > 1 else 'derive'
    repo = os.environ.get('VERIF_REPO', '/repo')
    if cmd == 'derive':
        for k, v in derive().items(): print(k, json.dumps(v))
    elif cmd == 'update':
        os.makedirs(PINDIR, exist_ok=True)
        for k, v in derive().items():
            pins = compute(repo, v)
            missing = [f'{p}:{n}' for p, d in pins.items() for n, h in d.items() if h is None]
            if missing: print(k, 'MISSING', missing)
            pins = {p: {n: h for n, h in d.items() if h} for p, d in pins.items()}
            json.dump(pins, open(os.path.join(PINDIR, f'{k}.json'), 'w'), indent=1, sort_keys=True)
        print('pins written to', PINDIR)
    elif cmd == 'check':
        print('\n'.join(check(sys.argv[2], repo)) or 'ok')
