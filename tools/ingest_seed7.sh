#!/bin/sh
# ingest_seed7.sh Cnn : copy /tmp/seed7/Cnn/out/m{1,2,3} into /verif/seeded/Cnn-r7m{1,2,3}/ and remove the scratch worktree
p=$1
for k in 1 2; do
  src=/tmp/seed7/$p/out/m$k
  [ -f $src/patch.diff ] && [ -f $src/demo.py ] && [ -f $src/meta.json ] || { echo "$p m$k: incomplete"; continue; }
  dst=/verif/seeded/$p-r7m$k
  mkdir -p $dst
  cp $src/patch.diff $src/demo.py $src/meta.json $dst/
  sed -i "s#/tmp/seed7/$p/repo#<scratch worktree>#g; s#/tmp/seed7/$p/out#<out>#g" $dst/meta.json
done
git -C /repo worktree remove --force /tmp/seed7/$p/repo 2>/dev/null
ls /verif/seeded | grep "^$p-r7" | tr '\n' ' '
