#!/usr/bin/env python3
"""splice5a.py — replace DESIGN.md §5a (between '## 5a.' and '## 5b.') by the per-property entries of notes/design_5a_v3/Cnn.md."""
import os, re
VERIF = os.path.dirname(os.path.dirname(os.path.abspath(__file__)))
p = os.path.join(VERIF, 'DESIGN.md'); s = open(p).read()
a = s.index('## 5a. As built, per property'); b = s.index('## 5b. ')
head = ('## 5a. As built, per property (what is proved clause by clause, tie, oracle and generators, scope, findings, seeded changes)\n\n'
        '*(Written from the files — `Props/`, harness metadata, specs, pins, evidence, `known_findings.json`, seeded results, the third audit — by a\n'
        'documentation pass after wave 9; every theorem named exists in `lean/LentilVerif`. Numbers that go stale are deliberately absent: obligations,\n'
        'pins, evaluations and wall times per property are in `notes/status_table.md` and `evidence/Cnn.json`, per-change verdicts in\n'
        '`notes/seeded_table.md` and `notes/harmless_table.md`, defects and findings in Appendix D.)*\n\n')
body = []
for i in range(1, 21):
    f = os.path.join(VERIF, 'notes', 'design_5a_v3', f'C{i:02d}.md')
    if not os.path.exists(f): print('missing', f); continue
    t = open(f).read().strip()
    if not t.startswith('###'): t = f'### C{i:02d} (built)\n\n' + t
    body.append(t)
open(p, 'w').write(s[:a] + head + '\n\n'.join(body) + '\n\n' + s[b:])
print('spliced', len(body))
