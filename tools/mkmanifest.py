#!/usr/bin/env python3
"""Write MANIFEST.json from the per-property harness metadata (tools/harness/cNN.py: LEVEL_TEXT, LEVEL_NOTE, TECHNIQUE)."""
import importlib, json, os, sys
HERE = os.path.dirname(os.path.abspath(__file__)); sys.path.insert(0, HERE)
VERIF = os.path.dirname(HERE)
props = [json.loads(l) for l in open(os.path.join(VERIF, 'properties.jsonl'))]
NA = json.load(open(os.path.join(HERE, 'not_applicable.json'))) if os.path.exists(os.path.join(HERE, 'not_applicable.json')) else {}
checks, na = [], []
KF = json.load(open(os.path.join(VERIF, 'known_findings.json')))
for p in props:
    pid = p['id']
    hp = os.path.join(HERE, 'harness', pid.lower() + '.py')
    pf = os.path.join(VERIF, 'lean', 'LentilVerif', 'Props', pid + '.lean')
    if not (os.path.exists(hp) and os.path.exists(pf)):
        na.append({'property_id': pid, 'reason': NA.get(pid, 'no check registered yet: model, theorems and harness for this property are not built (see DESIGN.md section 5 for the plan)')})
        continue
    src = open(hp).read()
    meta = {}
    import ast
    for node in ast.parse(src).body:
        if isinstance(node, ast.Assign) and isinstance(node.targets[0], ast.Name) and node.targets[0].id in ('LEVEL_TEXT', 'LEVEL_NOTE', 'TECHNIQUE', 'UNPROVEN', 'ASSUMPTIONS'):
            try: meta[node.targets[0].id] = ast.literal_eval(node.value)
            except Exception: pass
    def _lst(v): return [v] if isinstance(v, str) else [str(x) for x in (v or [])]
    note = meta.get('LEVEL_NOTE', '')
    if _lst(meta.get('UNPROVEN')): note += ' || NOT PROVED (observed by correspondence / oracle only, or not covered): ' + ' | '.join(_lst(meta['UNPROVEN']))
    if _lst(meta.get('ASSUMPTIONS')): note += ' || ASSUMPTIONS on inputs (restrictions of the generators and hypotheses of the theorems): ' + ' | '.join(_lst(meta['ASSUMPTIONS']))
    kf = [f for f in KF.get('findings', []) if f.get('property') == pid]
    if kf: note += ' || OPEN KNOWN FINDINGS (printed as KNOWN-FINDING on every run, exit 0): ' + ' | '.join(f"{f.get('id')}: {str(f.get('what') or f.get('summary') or f.get('text') or '')[:300]}" for f in kf)
    checks.append({
        'property_id': pid,
        'quick_cmd': f'/venv/bin/python tools/check.py {pid} --tier quick',
        'thorough_cmd': f'/venv/bin/python tools/check.py {pid} --tier thorough',
        'evidence_file': f'evidence/{pid}.json',
        'replay_cmd_template': f'/venv/bin/python tools/check.py {pid} --replay {{path}}',
        'engine': 'lean4-proof+tie',
        'level_claimed': {'category': 'proof', 'text': meta.get('LEVEL_TEXT', ''), 'design_ref': f'DESIGN.md §5 {pid}'},
        'level_note': note,
        'technique': meta.get('TECHNIQUE', 'Lean 4 theorems over a model tied to the source by translator + correspondence'),
    })
man = {
    'version': 1,
    'setup_cmd': '/venv/bin/python tools/setup.py',
    'hooks': {'guard': 'LENTIL_VERIF', 'enable': 'none needed: the harness observes lentil through its public API; LENTIL_VERIF=1 is exported by tools/vlib.py for future hooks',
              'baseline_off_cmd': 'cd /repo && /venv/bin/python -m pytest -ra -q -p no:cacheprovider --timeout=900', 'source_commits': [], 'add_only': True},
    'engines': [{'name': 'lean4-proof+tie', 'path': 'tools/check.py', 'serves_properties': [c['property_id'] for c in checks],
                 'kind_free_text': 'Lean 4 theorems (lean/LentilVerif/Props) over definitions regenerated from /repo by tools/py2lean.py and over a hand model tied to the implementation by a differential correspondence harness (tools/harness) driving lean --run'}],
    'checks': checks,
    'not_applicable': na,
    'notes': 'Exit 2 = infrastructure failure/time-out, never a violation. VERIF_SEED seeds every random choice. known_findings.json lists recorded defects.',
}
json.dump(man, open(os.path.join(VERIF, 'MANIFEST.json'), 'w'), indent=1, ensure_ascii=False)
print(f'{len(checks)} checks, {len(na)} not applicable')
