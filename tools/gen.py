#!/usr/bin/env python3
"""Regenerate lean/LentilVerif/Gen/*.lean from the repository's current working tree.
usage: gen.py [repo] ; prints a JSON report {module: {ok, changed, src, sha256, notes|refused}}"""
import os, sys, json
HERE = os.path.dirname(os.path.abspath(__file__))
sys.path.insert(0, HERE)
import py2lean
from py2lean import Refuse, write_if_changed, sha

def generate(repo, leandir=None):
    import importlib, gen_specs
    importlib.reload(gen_specs)
    leandir = leandir or os.environ.get('VERIF_LEAN') or os.path.join(os.path.dirname(HERE), 'lean')
    report = {}
    for mod in gen_specs.MODULES:
        src = os.path.join(repo, mod['src'])
        out = os.path.join(leandir, 'LentilVerif', 'Gen', mod['name'] + '.lean')
        entry = {'src': mod['src'], 'props': mod['props']}
        try:
            entry['sha256'] = sha(src)
            if 'generator' in mod:
                body, notes = mod['generator'](repo)
            else:
                defs, notes = py2lean.translate_functions(src, mod['sigs'], 'Gen')
                body = '\n'.join(defs)
            imports = ''.join(f'import {i}\n' for i in mod.get('imports', []))
            text = imports + gen_specs.HEADER.format(src=mod['src']) + body + '\nend Gen\n'
            entry['changed'] = write_if_changed(out, text)
            entry['ok'] = True
            entry['notes'] = notes
        except (Refuse, OSError, SyntaxError, KeyError, AssertionError) as e:
            entry['ok'] = False
            entry['refused'] = f'{type(e).__name__}: {e}'
        report[mod['name']] = entry
    return report

if __name__ == '__main__':
    repo = sys.argv[1] if len(sys.argv) > 1 else os.environ.get('VERIF_REPO', '/repo')
    print(json.dumps(generate(repo), indent=1))
